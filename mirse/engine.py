#!/usr/bin/env python3
"""mirse — path-by-path symbolic execution of rustc's textual MIR with z3.

The MIR dumps are regenerated from /repo on every run (see dumps.py).  Integers
are exact-width bit-vectors, byte memory is a z3 array BV64 -> BV8 with
little-endian loads, aggregates / enums / local objects are Python trees of
terms.  Calls to functions present in the dumps are executed recursively
(generic parameters substituted, trait methods resolved through the
`impl at file:line` in the MIR name); calls into core/alloc go through the
summary table in `Engine.call` — an un-summarised callee raises Unsupported and
the obligation is reported inconclusive, never as success.
"""
import re, os, itertools, time
import z3
from collections import namedtuple

INT = {'u8': 8, 'u16': 16, 'u32': 32, 'u64': 64, 'usize': 64, 'i8': 8, 'i16': 16, 'i32': 32, 'i64': 64,
       'isize': 64, 'bool': 1, 'u128': 128}
BV = z3.BitVecVal


def b2(c):
    return z3.If(c, BV(1, 1), BV(0, 1))


Fat = namedtuple('Fat', 'addr meta')
Agg = namedtuple('Agg', 'ty fields')
# disc: variant name (str) when concrete, or a z3 bit-vector (then `names` maps index -> name)
Enum = namedtuple('Enum', 'ty disc payload names')
LRef = namedtuple('LRef', 'oid path')
FnItem = namedtuple('FnItem', 'name')
Opaque = namedtuple('Opaque', 'what')


class Unit:
    def __repr__(self):
        return '()'


UNIT = Unit()

STD_VARIANTS = {'None': 0, 'Some': 1, 'Ok': 0, 'Err': 1, 'Continue': 0, 'Break': 1}


def mk_enum(ty, variant, fields=()):
    return Enum(ty, variant, {variant: tuple(fields)}, None)


def split_top(s, sep=','):
    out = []
    d = 0
    cur = ''
    i = 0
    while i < len(s):
        ch = s[i]
        if ch in '([{<':
            d += 1
        elif ch in ')]}':
            d -= 1
        elif ch == '>' and (i == 0 or s[i - 1] != '-'):
            d -= 1
        if ch == sep and d == 0:
            out.append(cur.strip())
            cur = ''
        else:
            cur += ch
        i += 1
    if cur.strip():
        out.append(cur.strip())
    return out


class Fn:
    def __init__(s, name):
        s.name = name
        s.locals = {}
        s.blocks = {}
        s.args = []
        s.ret = None


def parse_dump(path):
    fns = {}
    consts = {}
    lines = open(path).read().split('\n')
    i = 0
    ctfe = False
    while i < len(lines):
        l = lines[i]
        if l.startswith('// MIR FOR CTFE'):
            ctfe = True
            i += 1
            continue
        if l.startswith('fn ') or l.startswith('const ') or l.startswith('static '):
            if l.rstrip().endswith(';'):
                m = re.match(r'^const (.*) = const (.*);$', l)
                if m:
                    nm, ty = split_name_type(m.group(1))
                    consts[nm] = ('lit', m.group(2), ty)
                i += 1
                ctfe = False
                continue
            if l.startswith('fn '):
                m = re.match(r'^fn (.*?)\((.*)\) -> (.*) \{$', l)
                if not m:
                    i += 1
                    continue
                f = Fn(m.group(1))
                f.ret = m.group(3)
                for a in split_top(m.group(2)):
                    n, t = a.split(':', 1)
                    f.args.append(n.strip())
                    f.locals[n.strip()] = t.strip()
            else:
                m = re.match(r'^(?:const|static) (?:mut )?(.*) = \{$', l)
                if not m:
                    i += 1
                    continue
                nm, ty = split_name_type(m.group(1))
                f = Fn(nm)
                f.ret = ty
            i += 1
            cur = None
            while not lines[i].startswith('}'):
                s = lines[i].strip()
                m = re.match(r'^let (mut )?(_\d+): (.*);$', s)
                if m:
                    f.locals[m.group(2)] = m.group(3)
                m = re.match(r'^(bb\d+)( \(cleanup\))?: \{$', s)
                if m:
                    cur = m.group(1)
                    f.blocks[cur] = []
                elif cur and s == '}':
                    cur = None
                elif cur and s:
                    f.blocks[cur].append(s)
                i += 1
            if not ctfe:
                (fns if l.startswith('fn ') else consts).setdefault(f.name, f)
            ctfe = False
        i += 1
    return fns, consts


class Unsupported(Exception):
    pass


class State:
    def __init__(s, pc, mem, heap=None, loads=None):
        s.pc = pc
        s.mem = mem
        s.heap = dict(heap or {})
        s.loads = list(loads or [])   # (addr, nbytes, what) performed on this path
        s.first_match = None          # facts recorded by the Windows::position summary
        s.no_match = None
        s.scan_count = None

    def fork(s, pc):
        n = State(pc, s.mem, s.heap, s.loads)
        n.first_match = s.first_match
        n.no_match = s.no_match
        n.scan_count = s.scan_count
        return n


# Layout of the memory-resident (repr(C)) types the engine loads from the byte
# array: size, field index -> (offset, type); for DSTs the tail is the last
# field ('tail': (offset, elem type, elem size), 'align').  Checked against
# rustc's own numbers (-Zprint-type-sizes) by dumps.check_layouts().
LAYOUT = {
    'TagTypeId': {'size': 4, 'fields': [(0, 'u32')]},
    'TagHeader': {'size': 8, 'align': 8, 'fields': [(0, 'TagTypeId'), (4, 'u32')]},
    'BootInformationHeader': {'size': 8, 'align': 8, 'fields': [(0, 'u32'), (4, 'u32')]},
    'HeaderTagType': {'size': 2, 'enum': list(range(11))},
    'HeaderTagFlag': {'size': 2, 'enum': [0, 1]},
    'HeaderTagISA': {'size': 4, 'enum': [0, 4]},
    'HeaderTagHeader': {'size': 8, 'align': 4, 'fields': [(0, 'HeaderTagType'), (2, 'HeaderTagFlag'), (4, 'u32')]},
    'Multiboot2BasicHeader': {'size': 16, 'align': 8, 'fields': [(0, 'u32'), (4, 'HeaderTagISA'), (8, 'u32'), (12, 'u32')]},
    'ElfSectionsTag': {'size': 24, 'align': 8, 'fields': [(0, 'TagHeader'), (8, 'u32'), (12, 'u32'), (16, 'u32'), (20, '[u8]')],
                       'tail': (20, 'u8', 1)},
    'MemoryArea': {'size': 24, 'align': 8, 'fields': [(0, 'u64'), (8, 'u64'), (16, 'u32'), (20, 'u32')]},
    'MemoryMapTag': {'size': 16, 'align': 8, 'fields': [(0, 'TagHeader'), (8, 'u32'), (12, 'u32'), (16, '[MemoryArea]')], 'tail': (16, 'MemoryArea', 24)},
    'SmbiosTag': {'size': 16, 'align': 8, 'fields': [(0, 'TagHeader'), (8, 'u8'), (9, 'u8'), (10, '[u8; 6]'), (16, '[u8]')], 'tail': (16, 'u8', 1)},
    'EndTag': {'size': 8, 'align': 8, 'fields': [(0, 'TagHeader')]},
    'EndHeaderTag': {'size': 8, 'align': 8, 'fields': [(0, 'HeaderTagHeader')]},
    'FramebufferTypeId': {'size': 1, 'enum': [0, 1, 2]},
    'VBEMemoryModel': {'size': 1, 'enum': list(range(8))},
    # only the enum-typed byte of the packed 256-byte mode-info block is modelled
    'VBEModeInfo': {'size': 256, 'align': 1, 'fields': [(27, 'VBEMemoryModel')]},
    'VBEControlInfo': {'size': 512, 'align': 1, 'fields': []},
    'VBEInfoTag': {'size': 784, 'align': 8, 'fields': [(0, 'TagHeader'), (8, 'u16'), (10, 'u16'), (12, 'u16'), (14, 'u16'), (16, 'VBEControlInfo'), (528, 'VBEModeInfo')]},
    'FramebufferTag': {'size': 32, 'align': 8, 'fields': [(0, 'TagHeader'), (8, 'u64'), (16, 'u32'), (20, 'u32'), (24, 'u32'), (28, 'u8'),
                                                            (29, 'FramebufferTypeId'), (30, 'u16'), (32, '[u8]')], 'tail': (32, 'u8', 1)},
}


def dyn_layout(hdr):
    L = LAYOUT[hdr]
    return {'size': L['size'], 'align': 8, 'fields': [(0, hdr), (L['size'], '[u8]')], 'tail': (L['size'], 'u8', 1)}


class Engine:
    def __init__(s, dumps, srcroot='/repo', budget_s=600):
        s.fns = {}
        s.consts = {}
        for d in dumps:
            f, c = parse_dump(d)
            s.fns.update(f)
            s.consts.update(c)
        s.solver = z3.Solver()
        s.oid = itertools.count()
        s.srcroot = srcroot
        s.impls = {}
        s.build_impls()
        s.nq = 0
        s.solver_s = 0.0
        s.oblig = []
        s.encoded = set()
        s.t0 = time.time()
        s.budget = budget_s
        s.closures = {}
        s.tokenize_as_bytes = False
        s.opaque_calls = []

    # ---- impl resolution from "impl at file:line"
    def build_impls(s):
        cache = {}
        for name, f in list(s.fns.items()) + list(s.consts.items()):
            m = re.match(r'^(?:(.*)::)?<impl at ([^:]+):(\d+):\d+: \d+:\d+>::(\w+)$', name)
            if not m:
                continue
            file, line, meth = m.group(2), int(m.group(3)), m.group(4)
            if file not in cache:
                p = os.path.join(s.srcroot, file)
                cache[file] = open(p).read().split('\n') if os.path.exists(p) else None
            if not cache[file]:
                continue
            txt = ' '.join(cache[file][line - 1:line + 3])
            mm = re.match(r"^\s*(?:unsafe )?impl(?:<[^>]*>)?\s+(?:(?:[\w:]+::)?(\w+)(<[^{]*?>)?\s+for\s+)?(?:[\w:]+::)?&?(?:'\w+ )?(\w+|\[\w+\])", txt)
            if mm:
                s.impls[(mm.group(1), mm.group(3), meth)] = f
                if mm.group(2):          # generic trait: also keyed with its arguments, e.g. ('From<TagTypeId>', 'TagType', 'from')
                    targs = re.sub(r"'\w+,? ?", '', mm.group(2)).replace(' ', '')
                    s.impls[(mm.group(1) + targs, mm.group(3), meth)] = f

    def enum_variants(s, ty):
        """variant name -> discriminant of an enum declared in the repo (read from the current source)"""
        if not hasattr(s, '_enumcache'):
            s._enumcache = {}
        if ty in s._enumcache:
            return s._enumcache[ty]
        out = {}
        for crate in ('multiboot2-common', 'multiboot2', 'multiboot2-header'):
            d = os.path.join(s.srcroot, crate, 'src')
            for fn in sorted(os.listdir(d)) if os.path.isdir(d) else []:
                if not fn.endswith('.rs'):
                    continue
                src = open(os.path.join(d, fn)).read()
                m = re.search(r'\benum ' + re.escape(ty) + r'\s*\{(.*?)\n\}', src, re.S)
                if not m:
                    continue
                nxt = 0
                for ln in m.group(1).split('\n'):
                    ln = ln.strip()
                    if not ln or ln.startswith('//') or ln.startswith('#'):
                        continue
                    mm = re.match(r'^(\w+)\s*(?:\(.*\)|\{.*\})?\s*(?:=\s*(0x[0-9a-fA-F_]+|\d[\d_]*))?\s*,?\s*(?://.*|/\*.*\*/\s*,?)?$', ln)
                    if mm:
                        if mm.group(2):
                            nxt = int(mm.group(2).replace('_', ''), 0)
                        out[mm.group(1)] = nxt
                        nxt += 1
                s._enumcache[ty] = out
                return out
        s._enumcache[ty] = out
        return out

    def layout(s, t):
        m = re.match(r'^DynSizedStructure<(.*)>$', t)
        if m:
            return dyn_layout(m.group(1))
        return LAYOUT.get(t)

    def size(s, t, sub):
        t = s.subst(t, sub)
        if t in INT:
            return max(1, INT[t] // 8)
        if t.startswith('*') or t.startswith('&'):
            return 8
        L = s.layout(t)
        if L:
            return L['size']
        raise Unsupported('size of ' + t)

    def subst(s, t, sub):
        t = t.strip()
        for k, v in sub.items():
            t = re.sub(r'(?<![\w:])' + re.escape(k) + r'(?![\w])', v, t)
        t = re.sub(r"'\w+,? ?", '', t).replace('<>', '')
        t = re.sub(r'(?<![\w:])(?:[a-z_0-9]+::)+(?=[A-Z\[])', '', t)   # strip module paths
        return t

    def feasible(s, pc):
        if time.time() - s.t0 > s.budget:
            raise Unsupported('time budget exceeded')
        s.nq += 1
        t = time.time()
        s.solver.push()
        s.solver.add(pc)
        r = s.solver.check()
        s.solver.pop()
        s.solver_s += time.time() - t
        if r == z3.unknown:
            raise Unsupported('solver returned unknown')
        return r == z3.sat

    # ---- memory
    def load(s, st, addr, nbytes, what='load'):
        st.loads.append((addr, nbytes, what))
        bs = [z3.Select(st.mem, addr + BV(i, 64)) for i in range(nbytes)]
        v = bs[0]
        for b in bs[1:]:
            v = z3.Concat(b, v)
        return v

    def load_ty(s, st, addr, t, sub):
        t = s.subst(t, sub)
        if t in INT:
            return s.load(st, addr, INT[t] // 8, t) if t != 'bool' else z3.Extract(0, 0, s.load(st, addr, 1, t))
        if t.startswith('*') or t.startswith('&'):
            return s.load(st, addr, 8, t)
        L = s.layout(t)
        if L and 'enum' in L:
            v = s.load(st, addr, L['size'], t)
            s.oblig.append(('valid-enum', t, st.pc, z3.Or([v == BV(d, v.size()) for d in L['enum']]), addr))
            return v
        if L:
            return Agg(t, tuple(s.load_ty(st, addr + BV(o, 64), ft, sub) for o, ft in L['fields'] if not ft.startswith('[')))
        raise Unsupported('load type ' + t)

    def unsized(s, t, sub):
        t = s.subst(t, sub)
        if t.startswith('[') and ';' not in t:
            return True
        L = s.layout(t)
        return bool(L and 'tail' in L)

    # ---- places ------------------------------------------------------------
    # place descriptors: ('var', name) | ('loc', oid, path) | ('mem', addr, type, meta) | ('field', base, k, ftype) | ('downcast', base, variant)
    def place(s, f, env, st, p, sub):
        p = p.strip()
        if re.match(r'^_\d+$', p):
            return ('var', p)
        if not (p[0] == '(' and p[-1] == ')'):
            raise Unsupported('place ' + p)
        inner = p[1:-1]
        if inner.startswith('*'):
            base = s.rdplace(f, env, st, s.place(f, env, st, inner[1:], sub), sub)
            bt = s.place_type(f, env, inner[1:], sub)
            pointee = re.sub(r'^(\*const |\*mut |&mut |&)', '', bt)
            if isinstance(base, LRef):
                return ('loc', base.oid, base.path)
            if isinstance(base, Fat):
                return ('mem', base.addr, pointee, base.meta)
            return ('mem', base, pointee, None)
        d = 0
        for i, ch in enumerate(inner):
            if ch in '([<':
                d += 1
            elif ch in ')]' or (ch == '>' and inner[i - 1] != '-'):
                d -= 1
            elif d == 0 and inner.startswith(': ', i):
                lhs, ft = inner[:i], inner[i + 2:]
                m = re.match(r'^(.*)\.(\d+)$', lhs)
                base = s.place(f, env, st, m.group(1), sub)
                return ('field', base, int(m.group(2)), ft)
            elif d == 0 and inner.startswith(' as ', i):
                return ('downcast', s.place(f, env, st, inner[:i], sub), inner[i + 4:])
        raise Unsupported('place ' + p)

    def place_type(s, f, env, p, sub):
        p = p.strip()
        if re.match(r'^_\d+$', p):
            return s.subst(f.locals[p], sub)
        inner = p[1:-1]
        if not inner.startswith('*'):
            t = split_after_colon(inner)
            if t:
                return s.subst(t, sub)
        raise Unsupported('type of ' + p)

    def rdplace(s, f, env, st, pl, sub):
        k = pl[0]
        if k == 'var':
            if pl[1] not in env:
                raise Unsupported('read of unset local ' + pl[1] + ' in ' + f.name)
            return env[pl[1]]
        if k == 'loc':
            v = st.heap[pl[1]]
            for i in pl[2]:
                v = s.proj(v, i)
            return v
        if k == 'mem':
            if s.unsized(pl[2], sub):
                raise Unsupported('by-value read of unsized place')
            return s.load_ty(st, pl[1], pl[2], sub)
        if k == 'downcast':
            v = s.rdplace(f, env, st, pl[1], sub)
            return ('variant', v, pl[2])
        if k == 'field':
            base, kk, ft = pl[1], pl[2], pl[3]
            if base[0] == 'mem':
                a, meta = s.field_addr(base, kk, sub)
                return s.load_ty(st, a, ft, sub)
            bv = s.rdplace(f, env, st, base, sub)
            return s.proj(bv, kk)
        raise Unsupported('rdplace ' + repr(pl))

    def proj(s, v, k):
        if isinstance(k, tuple) and k[0] == 'variant':      # path element into an enum payload
            if not isinstance(v, Enum) or k[1] not in v.payload:
                raise Unsupported('variant projection')
            return v.payload[k[1]][k[2]]
        if isinstance(v, tuple) and len(v) == 3 and v[0] == 'variant':
            e, var = v[1], v[2]
            if not isinstance(e, Enum):
                raise Unsupported('downcast of non-enum')
            if var not in e.payload:
                raise Unsupported('downcast to variant %s not present' % var)
            return e.payload[var][k]
        if isinstance(v, (Agg,)):
            return v.fields[k]
        if isinstance(v, tuple):
            return v[k]
        if isinstance(v, Fat):        # (ptr, meta) decomposition of wrappers around fat pointers
            return v
        if isinstance(v, (z3.ExprRef, LRef)) and k == 0:
            return v                   # newtype wrappers (NonNull, Unique, Box) are transparent
        raise Unsupported('field %d of %r' % (k, v))

    def field_addr(s, base, k, sub):
        _, addr, ty, meta = base
        ty = s.subst(ty, sub)
        L = s.layout(ty)
        if not L:
            raise Unsupported('layout of ' + ty)
        return addr + BV(L['fields'][k][0], 64), meta

    def addr_of(s, f, env, st, p, sub):
        pl = s.place(f, env, st, p, sub)
        if pl[0] == 'var':
            key = '__alias_' + pl[1]
            oid = next(s.oid)
            st.heap[oid] = env[pl[1]]
            env[key] = oid
            return LRef(oid, ())
        if pl[0] == 'loc':
            return LRef(pl[1], pl[2])
        if pl[0] == 'mem':
            return Fat(pl[1], pl[3]) if pl[3] is not None and s.unsized(pl[2], sub) else pl[1]
        if pl[0] == 'field':
            base = pl[1]
            if base[0] == 'mem':
                a, meta = s.field_addr(base, pl[2], sub)
                return Fat(a, meta) if s.unsized(pl[3], sub) else a
            if base[0] == 'loc':
                return LRef(base[1], base[2] + (pl[2],))
            if base[0] == 'var':
                key = '__alias_' + base[1]
                if key in env and st.heap.get(env[key]) is env[base[1]]:
                    return LRef(env[key], (pl[2],))
                oid = next(s.oid)
                st.heap[oid] = env[base[1]]
                env[key] = oid
                return LRef(oid, (pl[2],))
            if base[0] == 'field' or base[0] == 'downcast':
                inner = s.addr_of_pl(f, env, st, base, sub)
                if isinstance(inner, LRef):
                    return LRef(inner.oid, inner.path + (pl[2],))
        raise Unsupported('addr_of ' + p)

    def addr_of_pl(s, f, env, st, pl, sub):
        if pl[0] == 'loc':
            return LRef(pl[1], pl[2])
        if pl[0] == 'field':
            inner = s.addr_of_pl(f, env, st, pl[1], sub)
            if isinstance(inner, LRef):
                return LRef(inner.oid, inner.path + (pl[2],))
        if pl[0] == 'var':
            oid = next(s.oid)
            st.heap[oid] = env[pl[1]]
            env['__alias_' + pl[1]] = oid
            return LRef(oid, ())
        raise Unsupported('addr_of_pl')

    def write(s, f, env, st, p, val, sub):
        pl = s.place(f, env, st, p, sub)
        if pl[0] == 'var':
            env[pl[1]] = val
            # keep an aliased heap copy in sync
            key = '__alias_' + pl[1]
            if key in env:
                st.heap[env[key]] = val
            return
        if pl[0] == 'loc':
            st.heap[pl[1]] = upd(st.heap[pl[1]], pl[2], val)
            return
        if pl[0] == 'field' and pl[1][0] == 'loc':
            oid, path = pl[1][1], pl[1][2] + (pl[2],)
            st.heap[oid] = upd(st.heap[oid], path, val)
            return
        if pl[0] == 'field' and pl[1][0] == 'var':
            env[pl[1][1]] = upd(env[pl[1][1]], (pl[2],), val)
            return
        raise Unsupported('write ' + p)

    def sync_aliases(s, env, st):
        """locals whose address was taken live in the heap: read them back"""
        for k in list(env.keys()):
            if k.startswith('__alias_'):
                v = k[len('__alias_'):]
                if env[k] in st.heap:
                    env[v] = st.heap[env[k]]

    # ---- constants / operands
    def const(s, txt, sub, st, f=None):
        txt = txt.strip()
        pm = re.search(r'::promoted\[(\d+)\]$', txt)
        if pm and f is not None:
            c = s.consts.get(f.name + '::promoted[%s]' % pm.group(1))
            if isinstance(c, Fn):
                outs = list(s.run(c, [], sub, st))
                if len(outs) == 1 and outs[0][0] == 'ret':
                    st.heap.update(outs[0][2].heap)      # the promoted temporary lives on
                    return outs[0][1]
            raise Unsupported('promoted const ' + txt)
        m = re.match(r'^(-?\d+)_(\w+)$', txt)
        if m:
            return BV(int(m.group(1)), INT[m.group(2)])
        if txt in ('true', 'false'):
            return BV(txt == 'true', 1)
        if txt.startswith('ZeroSized') or txt == '()':
            return UNIT
        if txt.startswith('"'):
            return Opaque('str')
        t2 = s.subst(txt, sub)
        for cand in (txt, t2):
            if cand in s.consts:
                c = s.consts[cand]
                if isinstance(c, tuple):
                    return s.const(c[1], sub, st)
                outs = list(s.run(c, [], sub, st))
                if len(outs) != 1 or outs[0][0] != 'ret':
                    raise Unsupported('const eval ' + cand)
                return outs[0][1]
        # associated const through a trait:  <T as tag::MaybeDynSized>::BASE_SIZE
        m = re.match(r'^<(.+?) as ([\w:]+)>::(\w+)$', t2)
        if m:
            f, sub2 = s.resolve('<%s as %s>::%s' % (m.group(1), m.group(2), m.group(3)), sub)
            if f is not None:
                outs = list(s.run(f, [], sub2, State(z3.BoolVal(True), st.mem if st else None)))
                if len(outs) == 1 and outs[0][0] == 'ret':
                    return outs[0][1]
            raise Unsupported('assoc const ' + t2)
        m = re.match(r'^(?:[a-z_0-9]+::)*([A-Z]\w*)(?:::<.*?>)?::([A-Z][A-Z0-9_]*)$', t2) or re.match(r'^(?:[a-z_0-9]+::)*([A-Z]\w*)(?:::<.*?>)?::([A-Z][A-Z0-9_]*)$', txt)
        if m:       # inherent associated const:  Type::<..>::NAME
            c = s.impls.get((None, m.group(1), m.group(2)))
            if isinstance(c, tuple):
                return s.const(c[1], sub, st)
            if isinstance(c, Fn):
                outs = list(s.run(c, [], sub, State(z3.BoolVal(True), st.mem if st else None)))
                if len(outs) == 1 and outs[0][0] == 'ret':
                    return outs[0][1]
        m = re.match(r'^(?:[\w]+::)*(\w+)::(\w+)$', txt)
        if m and m.group(1)[0].isupper() and m.group(2)[0].isupper():
            return mk_enum(m.group(1), m.group(2))
        if re.match(r'^[A-Z]\w*$', txt):
            return mk_enum('?', txt)    # bare unit variant (e.g. `WrongAlignment`)
        return FnItem(txt)

    def op(s, f, env, st, o, sub):
        o = o.strip()
        if o.startswith('copy ') or o.startswith('move '):
            return s.rdplace(f, env, st, s.place(f, env, st, o[5:], sub), sub)
        if o.startswith('no_retag '):
            return s.op(f, env, st, o[9:], sub)
        if o.startswith('const '):
            return s.const(o[6:], sub, st, f)
        return s.const(o, sub, st, f)

    def discr(s, v):
        if isinstance(v, tuple) and len(v) == 3 and v[0] == 'variant':
            v = v[1]
        if isinstance(v, Enum):
            if isinstance(v.disc, str):
                if v.disc in STD_VARIANTS:
                    return BV(STD_VARIANTS[v.disc], 64)
                idx = s.enum_variants(v.ty).get(v.disc)
                if idx is not None:
                    return BV(idx, 64)
                raise Unsupported('discriminant of ' + v.ty + '::' + v.disc)
            return z3.ZeroExt(64 - v.disc.size(), v.disc) if v.disc.size() < 64 else v.disc
        if isinstance(v, z3.ExprRef):
            return z3.ZeroExt(64 - v.size(), v) if v.size() < 64 else v
        raise Unsupported('discriminant of %r' % (v,))

    def rvalue(s, f, env, st, rv, sub, dty=None):
        rv = rv.strip()
        m = re.match(r'^(\w+)\((.*)\)$', rv)
        BIN = ('Add', 'Sub', 'Mul', 'BitAnd', 'BitOr', 'BitXor', 'Eq', 'Ne', 'Lt', 'Le', 'Gt', 'Ge', 'Rem', 'Div', 'Shl', 'Shr',
               'AddWithOverflow', 'SubWithOverflow', 'MulWithOverflow', 'Offset', 'AddUnchecked', 'SubUnchecked', 'MulUnchecked')
        if m and m.group(1) in BIN + ('Not', 'Neg', 'PtrMetadata', 'discriminant', 'Len'):
            opn = m.group(1)
            if opn == 'discriminant':
                d = s.discr(s.rdplace(f, env, st, s.place(f, env, st, m.group(2), sub), sub))
                w = INT.get(s.subst(dty, sub)) if dty else None
                if w and w < d.size():
                    d = z3.Extract(w - 1, 0, d)
                return d
            a = [s.op(f, env, st, x, sub) for x in split_top(m.group(2))]
            if opn == 'Not':
                return ~a[0]
            if opn == 'Neg':
                return -a[0]
            if opn == 'PtrMetadata':
                if isinstance(a[0], LRef):          # unsized view of a local array: its length
                    arr = s.deref_local(st, a[0])
                    if isinstance(arr, Agg):
                        return BV(len(arr.fields), 64)
                    raise Unsupported('metadata of a local reference')
                return a[0].meta
            x, y = a
            if isinstance(x, Fat):
                x = x.addr
            if isinstance(y, Fat):
                y = y.addr
            signed = False
            if opn in ('Shl', 'Shr') and y.size() != x.size():
                y = z3.ZeroExt(x.size() - y.size(), y) if y.size() < x.size() else z3.Extract(x.size() - 1, 0, y)
            return {
                'Add': lambda: x + y, 'Sub': lambda: x - y, 'Mul': lambda: x * y, 'AddUnchecked': lambda: x + y,
                'SubUnchecked': lambda: x - y, 'MulUnchecked': lambda: x * y, 'Offset': lambda: x + y,
                'BitAnd': lambda: x & y, 'BitOr': lambda: x | y, 'BitXor': lambda: x ^ y,
                'Eq': lambda: b2(x == y), 'Ne': lambda: b2(x != y), 'Lt': lambda: b2(z3.ULT(x, y)), 'Le': lambda: b2(z3.ULE(x, y)),
                'Gt': lambda: b2(z3.UGT(x, y)), 'Ge': lambda: b2(z3.UGE(x, y)), 'Rem': lambda: z3.URem(x, y), 'Div': lambda: z3.UDiv(x, y),
                'Shl': lambda: x << y, 'Shr': lambda: z3.LShR(x, y),
                'AddWithOverflow': lambda: (x + y, b2(z3.Not(z3.BVAddNoOverflow(x, y, False)))),
                'SubWithOverflow': lambda: (x - y, b2(z3.Not(z3.BVSubNoUnderflow(x, y, False)))),
                'MulWithOverflow': lambda: (x * y, b2(z3.Not(z3.BVMulNoOverflow(x, y, False)))),
            }[opn]()
        m = re.match(r'^(.*) as (.*?) \((\w+)(?:\(.*\))?\)$', rv)
        if m:
            v = s.op(f, env, st, m.group(1), sub)
            kind = m.group(3)
            t = s.subst(m.group(2), sub)
            if kind == 'IntToInt':
                n = INT[t]
                w = v.size()
                src_t = s.optype(f, m.group(1), sub)
                if n == w:
                    return v
                if n < w:
                    return z3.Extract(n - 1, 0, v)
                return z3.SignExt(n - w, v) if src_t and src_t.startswith('i') else z3.ZeroExt(n - w, v)
            if kind in ('PtrToPtr', 'Transmute', 'MutToConstPointer', 'PointerCoercion', 'PointerExposeProvenance', 'PointerWithExposedProvenance'):
                return v
            raise Unsupported('cast ' + kind)
        if rv.startswith('&'):
            inner = re.sub(r'^&(mut |raw const |raw mut )?', '', rv)
            return s.addr_of(f, env, st, inner, sub)
        # enum variant constructors:  Path::<..>::Variant(args)  /  Path::Variant
        m = re.match(r'^([\w:]+?)(::<.*>)?::(\w+)\((.*)\)$', rv)
        if m and m.group(3)[0].isupper():
            return mk_enum(m.group(1).split('::')[-1], m.group(3), [s.op(f, env, st, x, sub) for x in split_top(m.group(4))])
        m = re.match(r'^([\w:]+?)(::<.*>)?::([A-Z]\w*)$', rv)
        if m and not rv.startswith('const'):
            return mk_enum(m.group(1).split('::')[-1], m.group(3))
        m = re.match(r'^\{closure@[^}]*\} \{ (.*) \}$', rv)
        if m:       # closure with captured variables: an aggregate of its captures
            return Agg('closure', tuple(s.op(f, env, st, x.split(':', 1)[1], sub) for x in split_top(m.group(1))))
        m = re.match(r'^([\w:]+?)(::<.*?>)? \{ (.*) \}$', rv)
        if m:
            return Agg(m.group(1).split('::')[-1], tuple(s.op(f, env, st, x.split(':', 1)[1], sub) for x in split_top(m.group(3))))
        m = re.match(r'^([A-Z][\w:]*)(::<.*?>)?\((.*)\)$', rv)
        if m:
            return Agg(m.group(1).split('::')[-1], tuple(s.op(f, env, st, x, sub) for x in split_top(m.group(3))))
        if rv.startswith('(') and rv.endswith(')') and not rv.startswith('(*') and not re.match(r'^\(.*: [^()]*\)$', rv):
            return tuple(s.op(f, env, st, x, sub) for x in split_top(rv[1:-1]))
        if rv.startswith('[') and rv.endswith(']'):
            return Agg('[]', tuple(s.op(f, env, st, x, sub) for x in split_top(rv[1:-1])))
        if re.match(r'^[A-Z]\w*$', rv):
            return mk_enum('?', rv)
        return s.op(f, env, st, rv, sub)

    def optype(s, f, o, sub):
        o = o.strip()
        m = re.match(r'^(?:copy|move) (_\d+)$', o)
        if m:
            return s.subst(f.locals.get(m.group(1), ''), sub)
        m = re.match(r'^const -?\d+_(\w+)$', o)
        if m:
            return m.group(1)
        return None

    # ---- execution
    def run(s, f, args, sub, st, depth=0):
        s.encoded.add(f.name)
        if depth > 40:
            raise Unsupported('call depth')
        env = dict(zip(f.args, args))
        yield from s.block(f, 'bb0', env, sub, st, depth, {})

    def block(s, f, bb, env, sub, st, depth, visits):
        env = dict(env)
        visits = dict(visits)
        visits[bb] = visits.get(bb, 0) + 1
        if visits[bb] > 64:
            raise Unsupported('loop bound exceeded in ' + f.name)
        for stm in f.blocks[bb]:
            stm = stm.rstrip(';')
            if re.match(r'^(StorageLive|StorageDead|nop|ConstEvalCounter|FakeRead|Retag|PlaceMention|Coverage|AscribeUserType)', stm):
                continue
            if stm == 'return':
                s.sync_aliases(env, st)
                yield ('ret', env.get('_0', UNIT), st)
                return
            if stm == 'unreachable':
                return
            m = re.match(r'^goto -> (bb\d+)$', stm)
            if m:
                yield from s.block(f, m.group(1), env, sub, st, depth, visits)
                return
            m = re.match(r'^drop\(.*\) -> \[return: (bb\d+), .*\]$', stm)
            if m:
                yield from s.block(f, m.group(1), env, sub, st, depth, visits)
                return
            m = re.match(r'^switchInt\((.*)\) -> \[(.*)\]$', stm)
            if m:
                v = s.op(f, env, st, m.group(1), sub)
                taken = []
                for t in split_top(m.group(2)):
                    k, tgt = [x.strip() for x in t.split(':')]
                    if k == 'otherwise':
                        c = z3.And([v != x for x in taken]) if taken else z3.BoolVal(True)
                    else:
                        kv = BV(int(k), v.size())
                        taken.append(kv)
                        c = (v == kv)
                    npc = z3.simplify(z3.And(st.pc, c))
                    if z3.is_false(npc):
                        continue
                    if z3.is_true(z3.simplify(c)) or s.feasible(npc):
                        yield from s.block(f, tgt, env, sub, st.fork(npc), depth, visits)
                return
            m = re.match(r'^assert\((!?)(.*?), "(.*?)".*\) -> \[success: (bb\d+), .*\]$', stm)
            if m:
                c = s.op(f, env, st, m.group(2), sub)
                ok = (c == 0) if m.group(1) == '!' else (c == 1)
                bad = z3.And(st.pc, z3.Not(ok))
                if s.feasible(bad):
                    yield ('panic', 'overflow-check: ' + m.group(3)[:50] + ' @' + short(f.name), st.fork(bad))
                good = z3.And(st.pc, ok)
                if s.feasible(good):
                    yield from s.block(f, m.group(4), env, sub, st.fork(good), depth, visits)
                return
            m = parse_call(stm)
            if m:
                dst, callee, argtxt, retbb = m
                args = [s.op(f, env, st, a, sub) for a in split_top(argtxt)]
                for out in s.call(callee.strip(), args, sub, st, depth, f):
                    if out[0] == 'panic':
                        yield out
                        continue
                    if retbb is None:
                        continue
                    e2 = dict(env)
                    st2 = out[2]
                    s.sync_aliases(e2, st2)
                    if dst:
                        s.write(f, e2, st2, dst, out[1], sub)
                    yield from s.block(f, retbb, e2, sub, st2, depth, visits)
                return
            m = re.match(r'^(.*?) = (.*)$', stm)
            if m:
                s.sync_aliases(env, st)      # locals whose address was taken may have been written through it
                dst = m.group(1).strip()
                v = s.rvalue(f, env, st, m.group(2), sub, f.locals.get(dst))
                s.write(f, env, st, dst, v, sub)
                continue
            raise Unsupported('stmt ' + stm)

    # ---- calls: summaries of core/alloc + recursion into the dumps
    def call(s, callee, args, sub, st, depth, caller=None):
        def R(v, st=st):
            return [('ret', v, st)]

        def forks(alts):
            out = []
            for cond, mk in alts:
                pc = z3.And(st.pc, cond)
                if s.feasible(pc):
                    st2 = st.fork(pc)
                    out.append(mk(st2))
            return out

        c = callee
        m = re.match(r'^core::mem::size_of::<(.*)>$', c)
        if m:
            return R(BV(s.size(m.group(1), sub), 64))
        m = re.match(r'^core::mem::align_of::<(.*)>$', c)
        if m:
            t = s.subst(m.group(1), sub)
            L = s.layout(t)
            return R(BV(L['align'] if L else max(1, INT[t] // 8), 64))
        m = re.match(r'^core::mem::size_of_val::<(.*)>$', c)
        if m:
            t = s.subst(m.group(1), sub)
            L = s.layout(t)
            if L is None:
                raise Unsupported('size_of_val ' + t)
            if 'tail' in L:
                off, et, esz = L['tail']
                raw = BV(off, 64) + args[0].meta * BV(esz, 64)
                al = L['align']
                return R((raw + BV(al - 1, 64)) & BV((~(al - 1)) & (2 ** 64 - 1), 64))
            return R(BV(L['size'], 64))
        if re.match(r'^core::ptr::(const_ptr|mut_ptr)::<impl \*(const|mut) .*>::(cast|cast_mut|cast_const)(::<.*>)?$', c):
            return R(args[0].addr if isinstance(args[0], Fat) else args[0])
        if re.match(r'^core::ptr::(const_ptr|mut_ptr)::<impl \*(const|mut) u8>::(add|offset|wrapping_add)$', c):
            return R(args[0] + args[1])
        if re.match(r'^core::ptr::(const_ptr|mut_ptr)::<impl \*(const|mut) u8>::sub$', c):
            return R(args[0] - args[1])
        if re.match(r'^core::ptr::const_ptr::<impl \*const u8>::align_offset$', c):
            a, al = args
            return R((al - (a & (al - 1))) & (al - 1))
        if c.startswith('NonNull::') and c.endswith('::as_ptr'):
            return R(args[0])
        if c.startswith('NonNull::') and c.endswith('::new'):
            return forks([(args[0] == 0, lambda st2: ('ret', mk_enum('Option', 'None'), st2)),
                          (args[0] != 0, lambda st2: ('ret', mk_enum('Option', 'Some', [args[0]]), st2))])
        if re.match(r'^core::slice::from_raw_parts::<.*>$', c):
            return R(Fat(args[0], args[1]))
        if re.match(r'^core::slice::<impl \[.*\]>::as_ptr$', c):
            return R(args[0].addr)
        if re.match(r'^core::slice::<impl \[.*\]>::len$', c):
            return R(args[0].meta)
        if c.startswith('ptr_meta::from_raw_parts::<'):
            return R(Fat(args[0], args[1]) if not isinstance(args[1], Unit) else args[0])
        if re.match(r'^<Result<.*> as Try>::branch$', c):
            r = args[0]
            if not isinstance(r.disc, str):
                raise Unsupported('Try::branch on symbolic result')
            if r.disc == 'Ok':
                return R(mk_enum('ControlFlow', 'Continue', r.payload['Ok']))
            return R(mk_enum('ControlFlow', 'Break', [mk_enum('Result', 'Err', r.payload['Err'])]))
        if re.match(r'^<Option<.*> as Try>::branch$', c):
            o = args[0]
            if not isinstance(o.disc, str):
                raise Unsupported('Try::branch on symbolic option')
            if o.disc == 'Some':
                return R(mk_enum('ControlFlow', 'Continue', o.payload['Some']))
            return R(mk_enum('ControlFlow', 'Break', [mk_enum('Option', 'None')]))
        if re.match(r'^<Option<.*> as FromResidual<.*>>::from_residual$', c):
            return R(mk_enum('Option', 'None'))
        m = re.match(r'^core::num::<impl (u16|u32|u64)>::to_le_bytes$', c)
        if m:
            v = args[0]
            n = v.size() // 8
            return R(Agg('[u8;%d]' % n, tuple(z3.Extract(8 * i + 7, 8 * i, v) for i in range(n))))
        m = re.match(r'^<\[u8\] as PartialEq<\[u8; (\d+)\]>>::eq$', c)
        if m:
            n = int(m.group(1))
            sl = args[0]
            arr = args[1]
            if isinstance(arr, LRef):
                arr = s.deref_local(st, arr)
            if not isinstance(sl, Fat) or not isinstance(arr, Agg):
                raise Unsupported('slice == array with unmodelled operands')
            st.loads.append((sl.addr, n, 'slice == array'))
            same = z3.And([z3.Select(st.mem, sl.addr + BV(i, 64)) == arr.fields[i] for i in range(n)] + [sl.meta == n])
            return R(b2(same))
        m = re.match(r'^core::num::<impl (u8|u16|u32|u64|usize)>::wrapping_neg$', c)
        if m:
            return R(-args[0])
        if re.match(r'^<Result<.*> as FromResidual<.*>>::from_residual$', c):
            return R(mk_enum('Result', 'Err', args[0].payload['Err']))
        if re.match(r'^Option::<.*>::ok_or::<.*>$', c):
            o = args[0]
            if o.disc == 'Some':
                return R(mk_enum('Result', 'Ok', o.payload['Some']))
            return R(mk_enum('Result', 'Err', [args[1]]))
        if re.match(r'^Result::<.*>::map_err::<.*>$', c):
            r = args[0]
            if r.disc == 'Ok':
                return R(r)
            fi = args[1]
            if isinstance(fi, FnItem):
                t, v = fi.name.split('::')[-2:]
            elif isinstance(fi, Enum):
                t, v = fi.ty, fi.disc
            else:
                raise Unsupported('map_err with ' + repr(fi))
            return R(mk_enum('Result', 'Err', [mk_enum(t, v, [r.payload['Err'][0]])]))
        if re.match(r'^Result::<.*>::unwrap$', c) or re.match(r'^Option::<.*>::unwrap$', c) or re.match(r'^(Result|Option)::<.*>::expect$', c):
            r = args[0]
            if r.disc in ('Ok', 'Some'):
                return R(r.payload[r.disc][0])
            inner = r.payload.get('Err', (None,))[0] if r.disc == 'Err' else None
            return [('panic', 'unwrap on %s%s' % (r.disc, '(' + inner.disc + ')' if isinstance(inner, Enum) and isinstance(inner.disc, str) else ''), st)]
        m = re.match(r'^<\[(\w+)\] as Index<.*Range<usize>>>::index$', c)
        if m:
            sl, rg = args
            a, b = rg.fields
            esz = BV(s.size(m.group(1), sub), 64)
            return forks([(z3.Or(z3.UGT(a, b), z3.UGT(b, sl.meta)), lambda st2: ('panic', 'slice index out of range @' + short(caller.name if caller else ''), st2)),
                          (z3.And(z3.ULE(a, b), z3.ULE(b, sl.meta)), lambda st2: ('ret', Fat(sl.addr + a * esz, b - a), st2))])
        m = re.match(r'^core::slice::<impl \[(\w+)\]>::get::<.*Range<usize>>$', c)
        if m:
            sl, rg = args
            a, b = rg.fields
            esz = BV(s.size(m.group(1), sub), 64)
            return forks([(z3.Or(z3.UGT(a, b), z3.UGT(b, sl.meta)), lambda st2: ('ret', mk_enum('Option', 'None'), st2)),
                          (z3.And(z3.ULE(a, b), z3.ULE(b, sl.meta)), lambda st2: ('ret', mk_enum('Option', 'Some', [Fat(sl.addr + a * esz, b - a)]), st2))])
        m = re.match(r'^core::num::<impl (u8|u16|u32|u64|usize)>::(wrapping_sub|wrapping_add|wrapping_mul|saturating_sub)$', c)
        if m:
            a, b = args
            return R({'wrapping_sub': a - b, 'wrapping_add': a + b, 'wrapping_mul': a * b,
                      'saturating_sub': z3.If(z3.ULT(a, b), BV(0, a.size()), a - b)}[m.group(2)])
        m = re.match(r'^core::num::<impl (u8|u16|u32|u64|usize)>::(checked_add|checked_sub|checked_mul)$', c)
        if m:
            a, b = args
            res, ovf = {'checked_add': (a + b, z3.Not(z3.BVAddNoOverflow(a, b, False))),
                        'checked_sub': (a - b, z3.ULT(a, b)),
                        'checked_mul': (a * b, z3.Not(z3.BVMulNoOverflow(a, b, False)))}[m.group(2)]
            return forks([(ovf, lambda st2: ('ret', mk_enum('Option', 'None'), st2)),
                          (z3.Not(ovf), lambda st2: ('ret', mk_enum('Option', 'Some', [res]), st2))])
        m = re.match(r'^core::num::<impl (u8|u16|u32|u64|usize)>::(saturating_add|wrapping_neg|min|max)$', c)
        if m and m.group(2) == 'saturating_add':
            a, b = args
            return R(z3.If(z3.BVAddNoOverflow(a, b, False), a + b, BV(2 ** a.size() - 1, a.size())))
        if c in ('core::cmp::max::<usize>', '<usize as Ord>::max', 'core::cmp::max::<u32>', '<u32 as Ord>::max'):
            a, b = args
            return R(z3.If(z3.UGE(a, b), a, b))
        if c in ('core::cmp::min::<u32>', '<u32 as Ord>::min'):
            a, b = args
            return R(z3.If(z3.ULE(a, b), a, b))
        if re.match(r'^Option::<.*>::(is_some|is_none)$', c) and isinstance(args[0], LRef):
            o = s.deref_local(st, args[0])
            if isinstance(o, Enum) and isinstance(o.disc, str):
                return R(BV(int((o.disc == 'Some') == c.endswith('is_some')), 1))
        if re.match(r'^Option::<.*>::unwrap_or$', c) and isinstance(args[0], Enum) and isinstance(args[0].disc, str):
            return R(args[0].payload['Some'][0] if args[0].disc == 'Some' else args[1])
        if re.match(r'^core::slice::<impl \[.*\]>::is_empty$', c):
            return R(b2(args[0].meta == 0))
        m = re.match(r'^<\[(\w+)\] as Index<.*Range(From|To)<usize>>>::index$', c) or re.match(r'^core::slice::<impl \[(\w+)\]>::get::<.*Range(From|To)<usize>>$', c)
        if m and isinstance(args[0], Fat):
            sl, rg = args
            x = rg.fields[0]
            esz = BV(s.size(m.group(1), sub), 64)
            ok = z3.ULE(x, sl.meta)
            val = Fat(sl.addr + x * esz, sl.meta - x) if m.group(2) == 'From' else Fat(sl.addr, x)
            if 'get::<' in c:
                return forks([(z3.Not(ok), lambda st2: ('ret', mk_enum('Option', 'None'), st2)), (ok, lambda st2: ('ret', mk_enum('Option', 'Some', [val]), st2))])
            return forks([(z3.Not(ok), lambda st2: ('panic', 'slice index out of range @' + short(caller.name if caller else ''), st2)), (ok, lambda st2: ('ret', val, st2))])
        if c == 'core::cmp::min::<usize>' or c == '<usize as Ord>::min':
            a, b = args
            return R(z3.If(z3.ULE(a, b), a, b))
        # ---- core::slice::Windows, specified by its documentation:
        #   windows(n): all contiguous windows of length n, in order; position(p): index of the first
        #   remaining window satisfying p, consuming up to and including it; next(): the next window.
        if c == 'core::slice::<impl [u8]>::windows':
            sl, n = args
            return R(Agg('Windows', (sl, n)))           # (remaining slice, window size)
        m = re.match(r'^<Windows<.*> as Iterator>::next$', c)
        if m:
            w = s.deref_local(st, args[0])
            sl, n = w.fields
            def some(st2):
                s.store_local(st2, args[0], Agg('Windows', (Fat(sl.addr + 1, sl.meta - 1), n)))
                return ('ret', mk_enum('Option', 'Some', [Fat(sl.addr, n)]), st2)
            return forks([(z3.ULT(sl.meta, n), lambda st2: ('ret', mk_enum('Option', 'None'), st2)),
                          (z3.UGE(sl.meta, n), some)])
        m = re.match(r'^<Windows<.*> as Iterator>::position::<\{closure@(.*?)\}>$', c)
        if m:
            return s.windows_position(args, sub, st, depth, m.group(1))
        if re.match(r'^<Windows<.*> as Iterator>::take$', c):
            w = args[0]
            return R(Agg('TakeWindows', (w.fields[0], w.fields[1], args[1])))     # (slice, window size, at most k items)
        m = re.match(r'^<(?:core::iter::)?Take<Windows<.*>> as Iterator>::position::<\{closure@(.*?)\}>$', c)
        if m:
            return s.windows_position(args, sub, st, depth, m.group(1), take=True)
        m = re.match(r'^Option::<.*>::filter::<\{closure@(.*?)\}>$', c)
        if m and isinstance(args[0], Enum):
            o = args[0]
            cf = s.find_closure(m.group(1))
            if cf is None:
                raise Unsupported('closure body not found: ' + m.group(1))
            outs = []
            def run_some(stS):
                x = o.payload['Some'][0]
                oid = next(s.oid)
                stS.heap[oid] = x
                eoid = next(s.oid)
                stS.heap[eoid] = args[1]
                for r_ in s.run(cf, [LRef(eoid, ()), LRef(oid, ())], sub, stS, depth + 1):
                    if r_[0] == 'panic':
                        outs.append(r_)
                        continue
                    keep, st3 = r_[1], r_[2]
                    for cond, val in ((keep == 1, mk_enum('Option', 'Some', [x])), (keep == 0, mk_enum('Option', 'None'))):
                        pc = z3.And(st3.pc, cond)
                        if s.feasible(pc):
                            outs.append(('ret', val, st3.fork(pc)))
            if isinstance(o.disc, str):
                if o.disc == 'Some':
                    run_some(st.fork(st.pc))
                else:
                    outs.append(('ret', o, st))
            else:
                pcS = z3.And(st.pc, s.discr(o) == 1)
                if s.feasible(pcS):
                    run_some(st.fork(pcS))
                pcN = z3.And(st.pc, s.discr(o) == 0)
                if s.feasible(pcN):
                    outs.append(('ret', mk_enum('Option', 'None'), st.fork(pcN)))
            return outs
        if re.match(r'^<&\[u8\] as TryInto<\[u8; (\d+)\]>>::try_into$', c):
            n = int(re.match(r'^<&\[u8\] as TryInto<\[u8; (\d+)\]>>::try_into$', c).group(1))
            sl = args[0]
            def okk(st2):
                arr = Agg('[u8;%d]' % n, tuple(z3.Select(st2.mem, sl.addr + BV(i, 64)) for i in range(n)))
                st2.loads.append((sl.addr, n, 'try_into array'))
                return ('ret', mk_enum('Result', 'Ok', [arr]), st2)
            return forks([(sl.meta == n, okk), (sl.meta != n, lambda st2: ('ret', mk_enum('Result', 'Err', [Opaque('TryFromSliceError')]), st2))])
        if c == 'core::num::<impl u32>::from_le_bytes':
            bs = args[0].fields
            v = bs[0]
            for b in bs[1:]:
                v = z3.Concat(b, v)
            return R(v)
        if c == '<u32 as TryInto<usize>>::try_into':
            return R(mk_enum('Result', 'Ok', [z3.ZeroExt(32, args[0])]))
        # ---- builder support: Vec as a Python list (path-by-path => concrete length per path)
        if re.match(r'^Vec::<.*>::new$', c):
            return R(Agg('Vec', ((),)))
        if re.match(r'^Vec::<.*>::push$', c):
            v = s.deref_local(st, args[0])
            st2 = st.fork(st.pc)
            s.store_local(st2, args[0], Agg('Vec', (v.fields[0] + (args[1],),)))
            return [('ret', UNIT, st2)]
        if re.match(r'^Vec::<.*>::as_slice$', c):
            v = s.deref_local(st, args[0])
            return R(Agg('SliceOfVec', (v.fields[0],)))
        m = re.match(r'^Option::<.*>::as_ref$', c)
        if m:
            ref = args[0]
            o = s.deref_local(st, ref)
            if not isinstance(o, Enum):
                raise Unsupported('as_ref of non-option: %r via %r' % (o, ref))
            pay = {}
            for var, fs in o.payload.items():
                pay[var] = tuple(LRef(ref.oid, ref.path + (('variant', var, i),)) for i in range(len(fs)))
            return R(Enum('Option', o.disc, pay, o.names))
        m = re.match(r'^<&Vec<.*> as IntoIterator>::into_iter$', c)
        if m:
            v = s.deref_local(st, args[0])
            return R(Agg('SliceIter', (args[0], 0)))          # (reference to the SymVec, next index)
        m = re.match(r'^<core::slice::Iter<.*> as Iterator>::next$', c)
        if m:
            it = s.deref_local(st, args[0])
            vref, idx = it.fields
            sv = s.deref_local(st, vref)                        # Agg('SymVec', (elems tuple, len bv))
            elems, ln = sv.fields
            def some(st2):
                s.store_local(st2, args[0], Agg('SliceIter', (vref, idx + 1)))
                return ('ret', mk_enum('Option', 'Some', [LRef(vref.oid, vref.path + (0, idx))]), st2)
            alts = [(z3.ULE(ln, BV(idx, 64)), lambda st2: ('ret', mk_enum('Option', 'None'), st2))]
            if idx < len(elems):
                alts.append((z3.UGT(ln, BV(idx, 64)), some))
            return forks(alts)
        # ---- a few more list shapes (collect / sort / by-value iteration), so that re-arranged
        #      loops over the Vec slots stay inside the encodable fragment
        if re.match(r'^<Vec<.*> as Deref(Mut)?>::deref(_mut)?$', c) and isinstance(args[0], LRef):
            return R(args[0])            # the slice view of a modelled Vec is the Vec itself
        m = re.match(r'^core::slice::<impl \[.*\]>::iter$', c) or re.match(r'^Vec::<.*>::iter$', c)
        if m and isinstance(args[0], LRef):
            return R(Agg('SliceIter', (args[0], 0)))
        m = re.match(r'^core::slice::<impl \[.*\]>::iter_mut$', c) or re.match(r'^Vec::<.*>::iter_mut$', c)
        if m and isinstance(args[0], LRef):
            return R(Agg('SliceIter', (args[0], 0)))
        m = re.match(r'^<core::slice::Iter(?:Mut)?<.*> as Iterator>::find::<\{closure@(.*?)\}>$', c)
        if m:
            it = s.deref_local(st, args[0])
            vref, idx = it.fields
            v = s.deref_local(st, vref)
            if not (isinstance(v, Agg) and v.ty == 'Vec'):
                raise Unsupported('find over a non-concrete sequence')
            cf = s.find_closure(m.group(1))
            if cf is None:
                raise Unsupported('closure body not found: ' + m.group(1))
            elems = v.fields[0]
            outs = []
            frontier = [st.fork(st.pc)]          # states in which no earlier element matched
            for i in range(idx, len(elems)):
                nxt = []
                for st1 in frontier:
                    eref = LRef(vref.oid, vref.path + (0, i))
                    oid = next(s.oid)
                    st1.heap[oid] = eref
                    eoid = next(s.oid)
                    st1.heap[eoid] = args[1]              # closures are called through `&mut self`
                    for r_ in s.run(cf, [LRef(eoid, ()), LRef(oid, ())], sub, st1, depth + 1):
                        if r_[0] == 'panic':
                            outs.append(r_)
                            continue
                        b, st2 = r_[1], r_[2]
                        hit = z3.And(st2.pc, b == 1)
                        if s.feasible(hit):
                            outs.append(('ret', mk_enum('Option', 'Some', [eref]), st2.fork(hit)))
                        miss = z3.And(st2.pc, b == 0)
                        if s.feasible(miss):
                            nxt.append(st2.fork(miss))
                frontier = nxt
            for st1 in frontier:
                outs.append(('ret', mk_enum('Option', 'None'), st1))
            return outs
        m = re.match(r'^<core::slice::Iter<.*> as Iterator>::collect::<Vec<.*>>$', c)
        if m:
            it = args[0]
            vref, idx = it.fields
            sv = s.deref_local(st, vref)
            elems, ln = sv.fields
            refs = tuple(LRef(vref.oid, vref.path + (0, j)) for j in range(idx, len(elems)))
            return R(Agg('SymVec', (refs, ln - idx)))
        m = re.match(r'^(?:core|alloc)::slice::<impl \[.*\]>::(sort_by_key|sort_by|sort_unstable_by_key|sort_by_cached_key|sort|sort_unstable|reverse)(::<.*>)?$', c) \
            or re.match(r'^Vec::<.*>::(sort_by_key|sort_by|sort|reverse)(::<.*>)?$', c)
        if m and isinstance(args[0], LRef):
            sv = s.deref_local(st, args[0])
            if isinstance(sv, Agg) and sv.ty == 'SymVec' and len(sv.fields[0]) == 2:
                elems, ln = sv.fields
                # result = some permutation of the elements: both orders of a two-element list are possible
                outs = [('ret', UNIT, st)]
                st2 = st.fork(z3.And(st.pc, ln == 2))
                if s.feasible(st2.pc):
                    s.store_local(st2, args[0], Agg('SymVec', ((elems[1], elems[0]), ln)))
                    outs.append(('ret', UNIT, st2))
                return outs
            raise Unsupported('sort of a non-modelled sequence')
        m = re.match(r'^<Vec<.*> as IntoIterator>::into_iter$', c)
        if m and isinstance(args[0], Agg) and args[0].ty == 'SymVec':
            oid = next(s.oid)
            st2 = st.fork(st.pc)
            st2.heap[oid] = args[0]
            return [('ret', Agg('VecIntoIter', (LRef(oid, ()), 0)), st2)]
        m = re.match(r'^<alloc::vec::IntoIter<.*> as Iterator>::next$', c) or re.match(r'^<std::vec::IntoIter<.*> as Iterator>::next$', c)
        if m:
            it = s.deref_local(st, args[0])
            vref, idx = it.fields
            sv = s.deref_local(st, vref)
            elems, ln = sv.fields
            def some2(st2):
                s.store_local(st2, args[0], Agg('VecIntoIter', (vref, idx + 1)))
                return ('ret', mk_enum('Option', 'Some', [elems[idx]]), st2)
            alts = [(z3.ULE(ln, BV(idx, 64)), lambda st2: ('ret', mk_enum('Option', 'None'), st2))]
            if idx < len(elems):
                alts.append((z3.UGT(ln, BV(idx, 64)), some2))
            return forks(alts)
        if re.match(r'^<\[u8\] as AsRef<\[u8\]>>::as_ref$', c):
            return R(args[0])
        m = re.match(r'^<(.*) as MaybeDynSized>::as_bytes$', c)
        if m and s.tokenize_as_bytes:
            # uninterpreted token: the byte view of the tag object the argument refers to
            return R(Agg('BytesRef', (Agg('TagBytes', (s.subst(m.group(1), sub), args[0])),)))
        m = re.match(r'^new_boxed::<(.*)>$', c)
        if m and s.tokenize_as_bytes:
            return R(Agg('NewBoxed', (s.subst(m.group(1), sub), args[0], args[1])))
        if c in ('log::__private_api::log', 'log::max_level') or c.startswith('log::'):
            return R(UNIT)
        if c == 'panic' or c.startswith('core::panicking') or c == 'panic_fmt' or c.startswith('core::option::expect_failed') or c.startswith('core::result::unwrap_failed'):
            msg = 'explicit panic/assert!'
            return [('panic', msg + ' @' + short(caller.name if caller else ''), st)]
        if c.startswith('Arguments::') or c.startswith('core::fmt::') or c.startswith('Argument::'):
            return R(Opaque('fmt'))
        m = re.match(r'^<(.+) as Into<(.+)>>::into$', c)
        if m:
            src_t, dst_t = s.subst(m.group(1), sub), s.subst(m.group(2), sub)
            if src_t == dst_t:
                return R(args[0])
            f2, sub2 = s.resolve('<%s as From<%s>>::from' % (dst_t, src_t), sub)
            if f2 is None:
                raise Unsupported('Into without From impl: ' + c)
            return s.run(f2, args, sub2, st, depth + 1)
        for pat in s.opaque_calls:
            if re.match(pat, c):
                return R(Agg('OpaqueValue', (c,)))
        # ---- repo functions: exact, generic-inherent, or trait impl
        f, sub2 = s.resolve(c, sub)
        if f is None:
            raise Unsupported('call ' + c)
        return s.run(f, args, sub2, st, depth + 1)

    def deref_local(s, st, ref):
        if not isinstance(ref, LRef):
            raise Unsupported('expected a reference to a local')
        v = st.heap[ref.oid]
        for i in ref.path:
            v = s.proj(v, i)
        return v

    def store_local(s, st, ref, val):
        st.heap[ref.oid] = upd(st.heap[ref.oid], ref.path, val)

    def windows_position(s, args, sub, st, depth, clos, take=False):
        """First-match specification of Iterator::position over Windows: result Some(i) with
        i the least index whose window satisfies the closure (the closure body is executed
        from its MIR on the symbolic window i; minimality is recorded as a path fact
        through an uninterpreted 'no earlier match' predicate handled by the driver)."""
        w = s.deref_local(st, args[0])
        if take:
            sl, n, limit = w.fields
        else:
            sl, n = w.fields
            limit = None
        cf = s.find_closure(clos)
        if cf is None:
            raise Unsupported('closure body not found: ' + clos)
        count = z3.If(z3.UGE(sl.meta, n), sl.meta - n + 1, BV(0, 64))   # number of windows
        if limit is not None:
            count = z3.If(z3.ULE(count, limit), count, limit)
        mkw = (lambda a, m_, used: Agg('TakeWindows', (Fat(a, m_), n, limit - used))) if take else (lambda a, m_, used: Agg('Windows', (Fat(a, m_), n)))
        i = z3.BitVec('pos_i_%d' % next(s.oid), 64)
        out = []
        # Some(i): i < count, closure(window i) holds, and no j < i matches (driver-level fact)
        pc = z3.And(st.pc, z3.ULT(i, count))
        if s.feasible(pc):
            st2 = st.fork(pc)
            win = Fat(sl.addr + i, n)
            eoid = next(s.oid)
            st2.heap[eoid] = args[1]                  # the closure (with its captures) is called through `&mut self`
            for o in s.run(cf, [LRef(eoid, ()), win], sub, st2, depth + 1):
                if o[0] == 'panic':
                    out.append(o)
                    continue
                r, st3 = o[1], o[2]
                pc3 = z3.And(st3.pc, r == 1)
                if s.feasible(pc3):
                    st4 = st3.fork(pc3)
                    st4.heap = dict(st4.heap)
                    s.store_local(st4, args[0], mkw(sl.addr + i + 1, sl.meta - i - 1, i + 1))
                    st4.first_match = (sl, n, i, cf)
                    st4.scan_count = count
                    out.append(('ret', mk_enum('Option', 'Some', [i]), st4))
        # None: no window matches (driver-level fact)
        st5 = st.fork(st.pc)
        st5.no_match = (sl, n, count, cf)
        st5.scan_count = count
        s.store_local(st5, args[0], mkw(sl.addr + count, sl.meta - count, count))
        out.append(('ret', mk_enum('Option', 'None'), st5))
        return out

    def find_closure(s, clos):
        # clos = "file:line:col: line:col" ; MIR names closures as "<owner>::{closure#k}" — match by source span in the arg type
        for name, f in s.fns.items():
            if '{closure#' in name:
                for a in f.args:
                    if clos in f.locals.get(a, ''):
                        return f
        return None

    def resolve(s, c, sub):
        c = c.strip()
        if c in s.fns:
            return s.fns[c], sub
        c = re.sub(r'^(?:[a-z_0-9]+::)+(?=[A-Z<])', '', c)     # drop a leading module path
        m = re.match(r'^<(.+?) as ([\w:]+?)(?:<.*>)?>::(\w+)(::<.*>)?$', c)
        if m:
            ty = s.subst(m.group(1), sub)
            tyn = re.sub(r'<.*$', '', ty)
            tr = m.group(2).split('::')[-1]
            targs = re.match(r'^<.+? as [\w:]+?(<.*>)>::\w+', c)
            f = None
            if targs:
                f = s.impls.get((tr + s.subst(targs.group(1), sub).replace(' ', ''), tyn, m.group(3)))
            if f is None:
                f = s.impls.get((tr, tyn, m.group(3)))
            if f is None and (tr + '::' + m.group(3)) in s.fns:
                f = s.fns[tr + '::' + m.group(3)]   # provided method
            sub2 = dict(sub)
            if f is not None:
                sub2['Self'] = ty
                g = re.match(r'^\w+<(.*)>$', ty)
                if g:
                    sub2['H'] = g.group(1).split(',')[-1].strip()
            return f, sub2
        m = re.match(r'^(\w+)::<(.*?)>::(\w+)(?:::<(.*)>)?$', c)   # Type::<Args>::method::<MArgs>
        if m:
            tyn, arg, meth = m.group(1), s.subst(m.group(2), sub), m.group(3)
            f = s.impls.get((None, tyn, meth))
            sub2 = dict(sub)
            sub2['H'] = arg.split(',')[-1].strip()
            if m.group(4):
                sub2['T'] = s.subst(m.group(4), sub)
            return f, sub2
        m = re.match(r'^(\w+)::(\w+)(?:::<(.*)>)?$', c)
        if m:
            f = s.impls.get((None, m.group(1), m.group(2)))
            if f is not None:
                return f, sub
        return (s.fns.get(c), sub)


def split_name_type(t):
    """`path::<impl at f:1:2: 3:4>::NAME: some::Type` -> (name, type): split at the last depth-0 ': '"""
    d = 0
    last = None
    for i, ch in enumerate(t):
        if ch in '<([':
            d += 1
        elif ch in ')]' or (ch == '>' and t[i - 1] != '-'):
            d -= 1
        elif d == 0 and t.startswith(': ', i):
            last = i
    if last is None:
        return t, ''
    return t[:last], t[last + 2:]


def clos_owner(clos, eng):
    return '\0'


def short(name):
    return re.sub(r'<impl at [^>]*>::', '', name).split('::')[-1] if name else ''


def parse_call(stm):
    m = re.match(r'^(.*)\) -> (?:\[return: (bb\d+), .*\]|unwind .*)$', stm)
    if not m or stm.startswith('assert(') or stm.startswith('drop('):
        return None
    body = m.group(1)
    retbb = m.group(2)
    d = 0
    i = len(body) - 1
    while i >= 0:
        ch = body[i]
        if ch == ')':
            d += 1
        elif ch == '(':
            if d == 0:
                break
            d -= 1
        i -= 1
    head, argtxt = body[:i], body[i + 1:]
    dst = None
    mm = re.match(r'^(\(?[^=]*?\)?) = (.*)$', head)
    if mm and not re.search(r'[<(]', mm.group(1).replace('(*', '').replace('(_', '')):
        dst, head = mm.group(1), mm.group(2)
    return dst, head, argtxt, retbb


def split_after_colon(inner):
    d = 0
    for i, ch in enumerate(inner):
        if ch in '([<':
            d += 1
        elif ch in ')]' or (ch == '>' and inner[i - 1] != '-'):
            d -= 1
        elif d == 0 and inner.startswith(': ', i):
            return inner[i + 2:]
    return None


def upd(v, path, val):
    if not path:
        return val
    if isinstance(v, tuple) and not hasattr(v, '_fields'):
        l = list(v)
        l[path[0]] = upd(l[path[0]], path[1:], val)
        return tuple(l)
    fs = list(v.fields)
    fs[path[0]] = upd(fs[path[0]], path[1:], val)
    return v._replace(fields=tuple(fs))


def show(v):
    if isinstance(v, Enum):
        if isinstance(v.disc, str):
            return v.disc + ('(' + ','.join(show(x) for x in v.payload[v.disc]) + ')' if v.payload.get(v.disc) else '')
        return 'Enum?'
    if isinstance(v, Fat):
        return 'Fat'
    if isinstance(v, Agg):
        return v.ty
    if isinstance(v, tuple):
        return '(' + ','.join(show(x) for x in v) + ')'
    return 'v'
