#!/usr/bin/env python3
"""mirse driver: `run.py --prop C19 --tier quick --seed 0 --out result.json`
exit 0 = results written, 5 = the property has no mirse part."""
import sys, os, json, argparse, time, traceback
sys.path.insert(0, os.path.dirname(os.path.abspath(__file__)))
import dumps, targets


def main():
    ap = argparse.ArgumentParser()
    ap.add_argument('--prop')
    ap.add_argument('--tier', default='quick')
    ap.add_argument('--seed', type=int, default=0)
    ap.add_argument('--out')
    ap.add_argument('--only', action='append')
    ap.add_argument('--setup', action='store_true')
    ap.add_argument('--replay')
    ap.add_argument('--no-regen', action='store_true')
    a = ap.parse_args()
    if a.setup:
        dumps.regenerate()
        return 0
    if a.replay:
        return targets.replay(a.replay)
    tl = [t for t in targets.TARGETS if a.prop in t['props'] and (a.tier == 'thorough' or t.get('tier', 'quick') == 'quick')]
    if a.only:
        tl = [t for t in tl if any(o in t['name'] for o in a.only)]
    if not tl:
        return 5
    if not a.no_regen and not os.environ.get('MIRSE_NO_REGEN'):
        dumps.regenerate()
    results = []
    for t in tl:
        t0 = time.time()
        try:
            r = t['fn'](a.prop, a.tier, a.seed)
        except Exception as e:
            r = {'violations': [], 'inconclusive': [f"mirse {t['name']}: {type(e).__name__}: {e}"], 'queries': 0, 'nontrivial': 0,
                 'solver_s': 0.0, 'sample': {}}
            traceback.print_exc()
        r['sample'] = dict({'harness': 'mirse:' + t['name'], 'engine': 'mirse (MIR -> z3)', 'encodes': t['encodes'], 'bound': t['bound'],
                            'wall_s': round(time.time() - t0, 1)}, **r.get('sample', {}))
        results.append(r)
        print(f"[{a.prop}] mirse:{t['name']}: {len(r['violations'])} violations, {len(r.get('inconclusive', []))} inconclusive, "
              f"{r.get('queries', 0)} queries, {time.time() - t0:.0f}s")
    json.dump(results, open(a.out, 'w'), indent=1, default=str)
    return 0


if __name__ == '__main__':
    sys.exit(main())
