"""mirse targets: entry points executed symbolically from the MIR dumps, the
property each decides, and native replay of the solver's models."""
import os, sys, json, subprocess, hashlib, time, re
import z3
sys.path.insert(0, os.path.dirname(os.path.abspath(__file__)))
from engine import *
import dumps

VERIF = '/verif'
REPLAYS = os.path.join(VERIF, 'replays')
BV64 = lambda n: z3.BitVec(n, 64)


def engine(mode):
    return Engine(dumps.paths(mode))


def fresh_mem(name='mem'):
    return z3.Array(name, z3.BitVecSort(64), z3.BitVecSort(8))


def rd32(mem, a):
    return z3.Concat(z3.Select(mem, a + 3), z3.Select(mem, a + 2), z3.Select(mem, a + 1), z3.Select(mem, a))


def zx(v, n=64):
    return z3.ZeroExt(n - v.size(), v) if v.size() < n else v


class Q:
    """query bookkeeping"""
    def __init__(s):
        s.n = 0
        s.nontrivial = 0
        s.t = 0.0
        s.log = []

    def check(s, name, *cs, want_model=True):
        sol = z3.Solver()
        sol.set('timeout', 120000)
        for c in cs:
            sol.add(c)
        t0 = time.time()
        r = sol.check()
        s.t += time.time() - t0
        s.n += 1
        s.nontrivial += 1
        s.log.append({'query': name, 'result': str(r), 's': round(time.time() - t0, 3)})
        return r, (sol.model() if r == z3.sat else None)


def _check2(self, name, pref, *cs):
    """like check(); when satisfiable, prefer a model that also satisfies `pref` (small, replayable)"""
    r, m = self.check(name, *cs)
    if r == z3.sat:
        r2, m2 = self.check(name + ' [replayable model]', pref, *cs)
        if r2 == z3.sat:
            return r2, m2
    return r, m


Q.check2 = _check2


def native_probe(name, hexbytes, profile='dev'):
    """Runs a probe of the natively compiled crates (harness/src/probes.rs) on concrete bytes."""
    sys.path.insert(0, os.path.join(VERIF, 'lib'))
    import vlib
    b = vlib.native_bin(profile)
    if b is None:
        return 'build-failed'
    try:
        arg = hexbytes if hexbytes else '-'
        tmp = None
        if len(arg) > 100000:
            tmp = os.path.join(VERIF, 'build', f'probe-{os.getpid()}.hex')
            open(tmp, 'w').write(arg)
            arg = '@' + tmp
        p = subprocess.run([b, '--probe', name, arg], stdout=subprocess.PIPE, stderr=subprocess.STDOUT, text=True, timeout=60)
        if tmp:
            os.unlink(tmp)
    except subprocess.TimeoutExpired:
        return 'timeout'
    m = re.search(r'^PROBE: (.*)$', p.stdout, re.M)
    if p.returncode < 0 or p.returncode >= 128:
        return 'crash(signal)'
    return m.group(1) if m else ('no-output ' + p.stdout[-200:])


def write_replay(prop, target, kind, desc, probe, hexbytes, transcript, extra=None):
    os.makedirs(REPLAYS, exist_ok=True)
    hid = hashlib.sha1((target + kind + desc + hexbytes).encode()).hexdigest()[:10]
    path = os.path.join(REPLAYS, f'{prop}-mirse-{target}-{hid}.json')
    json.dump({'property': prop, 'engine': 'mirse', 'target': target, 'kind': kind, 'check': desc, 'probe': probe,
               'input_hex': hexbytes, 'native_transcript': transcript, 'model': extra or {},
               'how_to_replay': f'{VERIF}/bin/vcheck --replay {path}'}, open(path, 'w'), indent=1)
    return path


def replay(path):
    j = json.load(open(path))
    for prof in ('dev', 'release'):
        print(f"{prof}: {native_probe(j['probe'], j['input_hex'], prof)}")
    return 0


def model_bytes(m, mem, base, n):
    out = []
    for i in range(n):
        v = m.eval(z3.Select(mem, base + i), model_completion=True)
        out.append(v.as_long())
    return bytes(out)


# ---------------------------------------------------------------------------
# C19 / C05 / C01: cast::<ElfSectionsTag> + ElfSectionsTag::sections
# ---------------------------------------------------------------------------
def elf_sections_state(mode, q):
    """Symbolic execution of DynSizedStructure::<TagHeader>::cast::<ElfSectionsTag> followed by
    ElfSectionsTag::sections from a generic tag reference with symbolic address / size / contents."""
    eng = engine(mode)
    mem = fresh_mem()
    base = BV64('tag')
    size = zx(rd32(mem, base + 4))
    # what ref_from_slice guarantees about a &DynSizedStructure<TagHeader>: 8-aligned, size >= 8, metadata = size - 8
    pre = z3.And(base & 7 == 0, z3.ULT(base, z3.BitVecVal(1 << 47, 64)), z3.UGE(size, 8))
    st = State(pre, mem)
    fcast = eng.impls[(None, 'DynSizedStructure', 'cast')]
    fsec = eng.impls[(None, 'ElfSectionsTag', 'sections')]
    outs = []
    for o in eng.run(fcast, [Fat(base, size - 8)], {'H': 'TagHeader', 'T': 'ElfSectionsTag'}, st):
        if o[0] == 'panic':
            outs.append(('panic', o[1], o[2], None))
            continue
        tagref = o[1]
        for o2 in eng.run(fsec, [tagref], {}, o[2]):
            if o2[0] == 'panic':
                outs.append(('panic', o2[1], o2[2], None))
            else:
                outs.append(('ret', o2[1], o2[2], tagref))
    return eng, mem, base, size, outs


def t_elf_sections(prop, tier, seed):
    q = Q()
    res = {'violations': [], 'inconclusive': [], 'sample': {}}
    per_mode = {}
    for mode in ('dev', 'rel'):
        eng, mem, base, size, outs = elf_sections_state(mode, q)
        per_mode[mode] = (eng, mem, base, size, outs)
        n = zx(rd32(mem, base + 8))
        esz = zx(rd32(mem, base + 12))
        shndx = zx(rd32(mem, base + 16))
        seclen = size - 20
        sec = base + 20
        small = z3.And(z3.ULE(size, 256), rd32(mem, base) == 9)    # replayable models: an ELF-sections tag of modest size
        for kind, val, st, tagref in outs:
            if kind != 'ret':
                continue
            cur, rem, es, strtab = val.fields[0], zx(val.fields[1]), zx(val.fields[2]), val.fields[3]
            # the typed view itself (C05/C15 for the one kind Kani cannot compile)
            r, m = q.check2(f'{mode}: view extent', small, st.pc, z3.Not(z3.And(tagref.addr == base, tagref.meta == seclen, z3.UGE(size, 20))))
            if r == z3.sat:
                res['violations'].append(mk_violation(prop, 'elf_sections', 'verif', 'ElfSectionsTag view has element count size-20 at the tag address', m, mem, base, size, mode))
            # the iterator state handed out
            good_state = z3.And(cur == sec, rem == n, es == esz)
            r, m = q.check2(f'{mode}: iterator state fields', small, st.pc, z3.Not(good_state))
            if r == z3.sat:
                res['violations'].append(mk_violation(prop, 'elf_sections', 'verif', 'sections(): current = tag+20, remaining = stored count, entry size = stored entry size', m, mem, base, size, mode))
            # invariant I: every entry the walk will visit, and the designated string-table entry, lie inside the tag
            #   (with no entries at all nothing is ever read through the string-table pointer)
            inv = z3.And(z3.ULE(n * esz, seclen), strtab == sec + shndx * esz,
                         z3.Or(n == 0, z3.And(z3.UGE(strtab, sec), z3.ULE(strtab - sec + esz, seclen))))
            r, m = q.check2(f'{mode}: entries and string table inside the tag', small, st.pc, z3.Not(inv))
            if r == z3.sat:
                res['violations'].append(mk_violation(prop, 'elf_sections', 'memsafety',
                                                      'sections() returns an iterator whose entries / string-table entry reach outside the tag (count x entry size, or index x entry size, not checked against the tag size)',
                                                      m, mem, base, size, mode))
        res['sample'][f'paths_{mode}'] = [f"{k}: {v if k == 'panic' else 'ElfSectionIter'}" for k, v, _, _ in outs]
    # dev vs release: same outcome category for every input (C08 half for this entry point)
    if prop in ('C08', 'C19'):
        d = per_mode['dev']
        r_ = per_mode['rel']
        # both runs use identically named symbols, so path conditions are comparable
        dev_ret = z3.Or([o[2].pc for o in d[4] if o[0] == 'ret'] + [z3.BoolVal(False)])
        rel_ret = z3.Or([o[2].pc for o in r_[4] if o[0] == 'ret'] + [z3.BoolVal(False)])
        small = z3.And(z3.ULE(d[3], 256), rd32(d[1], d[2]) == 9)
        r, m = q.check2('dev returns <=> release returns', small, dev_ret != rel_ret)
        if r == z3.sat:
            res['violations'].append(mk_violation(prop, 'elf_sections', 'profile-divergence',
                                                  'sections(): dev build panics where the release build returns (or vice versa)', m, d[1], d[2], d[3], 'dev/rel'))
    eng = per_mode['dev'][0]
    res['queries'] = q.n + eng.nq + per_mode['rel'][0].nq
    res['nontrivial'] = q.nontrivial
    res['solver_s'] = round(q.t + eng.solver_s + per_mode['rel'][0].solver_s, 2)
    res['sample'].update({'functions_encoded': sorted(short(x) for x in eng.encoded), 'queries': q.log, 'status': 'done'})
    res['violations'] = confirm_elf(prop, res['violations'], res['inconclusive'])
    return res


def mk_violation(prop, target, kind, desc, m, mem, base, size, mode):
    b = m.eval(base, model_completion=True).as_long()
    sz = m.eval(size, model_completion=True).as_long()
    n = min(((sz + 7) & ~7), 4096)
    tag = model_bytes(m, mem, z3.BitVecVal(b, 64), n)
    return {'harness': 'mirse:' + target, 'kind': kind, 'desc': desc, 'loc': mode, 'tag': tag.hex(), 'size': sz}


def confirm_elf(prop, vs, inconclusive):
    """Replay: wrap the model's tag into a boot information and run the natively compiled crates."""
    out = []
    seen = set()
    for v in vs:
        if (v['kind'], v['desc']) in seen:
            continue
        seen.add((v['kind'], v['desc']))
        tag = bytes.fromhex(v['tag'])
        total = 8 + len(tag) + 8
        region = total.to_bytes(4, 'little') + b'\0\0\0\0' + tag + (0).to_bytes(4, 'little') + (8).to_bytes(4, 'little')
        tr = {p: native_probe('elf_sections', region.hex(), p) for p in ('dev', 'release')}
        rep = False
        if v['kind'] == 'profile-divergence':
            rep = tr['dev'].startswith('panic') != tr['release'].startswith('panic')
        else:
            rep = any('OUTSIDE' in t or 'MISMATCH' in t for t in tr.values())
        if rep:
            v = dict(v)
            v['replay'] = write_replay(prop, 'elf_sections', v['kind'], v['desc'], 'elf_sections', region.hex(), tr)
            out.append(v)
        else:
            inconclusive.append(f"mirse:elf_sections: model did not reproduce natively ({v['kind']}: {v['desc']}): {tr}")
    return out


# ---------------------------------------------------------------------------
# C13: Multiboot2Header::find_header for every buffer length / position / stored length
# ---------------------------------------------------------------------------
HMAGIC = 0xE85250D6


def t_find_header(prop, tier, seed):
    q = Q()
    res = {'violations': [], 'inconclusive': [], 'sample': {}}
    viol = []
    for mode in ('dev', 'rel'):
        eng = engine(mode)
        mem = fresh_mem()
        base = BV64('buf')
        L = BV64('len')
        pre = z3.And(base & 7 == 0, z3.ULT(base, z3.BitVecVal(1 << 47, 64)), z3.ULT(L, z3.BitVecVal(1 << 32, 64)))
        st = State(pre, mem)
        f = eng.impls[(None, 'Multiboot2Header', 'find_header')]
        outs = list(eng.run(f, [Fat(base, L)], {}, st))
        lim = z3.If(z3.ULE(L, z3.BitVecVal(8192, 64)), L, z3.BitVecVal(8192, 64))       # first min(L, 8192) bytes
        spec_count = z3.If(z3.UGE(lim, 4), lim - 3, z3.BitVecVal(0, 64))                # 4-byte windows in them
        small = z3.ULE(L, z3.BitVecVal(20000, 64))                                       # preference for replayable models
        paths = []
        for kind, val, pst in outs:
            paths.append(f"{kind}: {val if kind == 'panic' else show(val)}")
            fm = getattr(pst, 'first_match', None)
            nm = getattr(pst, 'no_match', None)
            # the scan must look at exactly the windows of the first min(L,8192) bytes
            if fm is not None or nm is not None:
                sl, n, x, _ = fm if fm is not None else nm
                eng_count = pst.scan_count if getattr(pst, 'scan_count', None) is not None else z3.If(z3.UGE(sl.meta, n), sl.meta - n + 1, z3.BitVecVal(0, 64))
                r, m = q.check2(f'{mode}: scan window = first min(L,8192) bytes [{kind}]', small, pst.pc, z3.Or(eng_count != spec_count, sl.addr != base))
                if r == z3.sat:
                    # look for a behaviour-revealing model: a match found outside the specified windows, or a
                    # specified window holding the magic that the scan never looked at
                    j = z3.BitVec('witness_j', 64)
                    magic_at_j = rd32(mem, base + j) == z3.BitVecVal(HMAGIC, 32)
                    if fm is not None:
                        extra = [z3.UGE(fm[2], spec_count)]
                        cut = fm[2]
                    else:
                        extra = [z3.UGE(j, eng_count), z3.ULT(j, spec_count), magic_at_j]
                        cut = j
                    r2, m2 = q.check(f'{mode}: scan window [behaviour-revealing model]', small, pst.pc, *extra)
                    v = fh_violation(m2 if r2 == z3.sat else m, mem, base, L, mode, 'verif', 'the scan does not cover exactly the first min(len, 8192) bytes', q, pst.pc, small)
                    if r2 == z3.sat and v['buf'] is not None:
                        # bytes before the witness position are unconstrained on this path: no earlier occurrence
                        c = m2.eval(cut, model_completion=True).as_long()
                        raw = bytearray(bytes.fromhex(v['buf']))
                        raw[:min(c, len(raw))] = bytes(min(c, len(raw)))
                        v['buf'] = bytes(raw).hex()
                    viol.append(v)
            if kind == 'panic':
                r, m = q.check(f'{mode}: panic path [{val}]', pst.pc, small)
                if r != z3.sat:
                    r, m = q.check(f'{mode}: panic path (any length) [{val}]', pst.pc)
                if r == z3.sat:
                    viol.append(fh_violation(m, mem, base, L, mode, 'panic', 'find_header panics: ' + val, q, None, None))
                continue
            # returned value vs. the property's case analysis
            if nm is not None:
                ok = z3.BoolVal(isinstance(val, Enum) and val.disc == 'Ok' and val.payload['Ok'][0].disc == 'None')
                r, m = q.check(f'{mode}: no occurrence => Ok(None)', pst.pc, z3.Not(ok))
                if r == z3.sat:
                    viol.append(fh_violation(m, mem, base, L, mode, 'verif', 'no magic in the window but result is not Ok(None)', q, None, None))
                continue
            if fm is None:
                # paths that never scanned (alignment error) cannot occur for an aligned buffer
                r, m = q.check(f'{mode}: early return without scan', pst.pc)
                if r == z3.sat:
                    viol.append(fh_violation(m, mem, base, L, mode, 'verif', 'returns without scanning an aligned buffer: ' + show(val), q, None, None))
                continue
            i = fm[2]
            stored = zx(rd32(mem, base + i + 8))
            aligned = (i & 7) == 0
            len_readable = z3.ULE(i + 12, L)
            in_range = z3.And(len_readable, z3.ULE(i + stored, L))
            must_ok = z3.And(aligned, in_range)
            is_ok_some = isinstance(val, Enum) and val.disc == 'Ok' and val.payload['Ok'][0].disc == 'Some'
            is_err = isinstance(val, Enum) and val.disc == 'Err'
            if is_ok_some:
                sl_, idx = val.payload['Ok'][0].payload['Some'][0]
                good = z3.And(must_ok, sl_.addr == base + i, sl_.meta == stored, zx(idx) == i)
                r, m = q.check(f'{mode}: Ok(Some) only for an aligned, in-range header, with the exact sub-slice', pst.pc, z3.Not(good), small)
                if r == z3.sat:
                    viol.append(fh_violation(m, mem, base, L, mode, 'verif', 'Ok(Some(..)) returned for a misaligned / truncated header or with the wrong sub-slice', q, None, None))
            elif is_err:
                r, m = q.check(f'{mode}: error only when misaligned or truncated [{show(val)}]', pst.pc, must_ok, small)
                if r == z3.sat:
                    viol.append(fh_violation(m, mem, base, L, mode, 'verif', 'error ' + show(val) + ' although the first occurrence is aligned and the header lies inside the buffer', q, None, None))
            else:
                r, m = q.check(f'{mode}: Ok(None) although the magic occurs', pst.pc, small)
                if r == z3.sat:
                    viol.append(fh_violation(m, mem, base, L, mode, 'verif', 'Ok(None) although the magic occurs in the window', q, None, None))
        res['sample'][f'paths_{mode}'] = paths
        res['sample'].setdefault('functions_encoded', sorted(short(x) for x in eng.encoded))
        res.setdefault('queries', 0)
        res['queries'] += eng.nq
        res['solver_s'] = res.get('solver_s', 0) + eng.solver_s
    res['queries'] += q.n
    res['nontrivial'] = q.nontrivial
    res['solver_s'] = round(res['solver_s'] + q.t, 2)
    res['sample']['queries'] = q.log
    res['sample']['summaries_trusted'] = ['core::slice::Windows / Iterator::position (first-match specification)', '<[u8]>::get / Index<Range> (bounds conditions of core)']
    res['violations'] = confirm_fh(prop, viol, res['inconclusive'])
    return res


def fh_violation(m, mem, base, L, mode, kind, desc, q, pc, small):
    Lv = m.eval(L, model_completion=True).as_long()
    b = m.eval(base, model_completion=True).as_long()
    if Lv > 70000:
        return {'harness': 'mirse:find_header', 'kind': kind, 'desc': desc, 'loc': mode, 'buf': None, 'len': Lv}
    buf = model_bytes(m, mem, z3.BitVecVal(b, 64), Lv)
    return {'harness': 'mirse:find_header', 'kind': kind, 'desc': desc, 'loc': mode, 'buf': buf.hex(), 'len': Lv}


def spec_find_header(buf):
    lim = min(len(buf), 8192)
    magic = HMAGIC.to_bytes(4, 'little')
    i = buf[:lim].find(magic)
    if i < 0:
        return 'Ok(None)'
    if i % 8 != 0:
        return 'Err'
    if i + 12 > len(buf):
        return 'Err'
    ln = int.from_bytes(buf[i + 8:i + 12], 'little')
    if i + ln > len(buf):
        return 'Err'
    return f'Ok(Some(off={i},len={ln}))'


def confirm_fh(prop, vs, inconclusive):
    out = []
    seen = set()
    for v in vs:
        if (v['kind'], v['desc']) in seen:
            continue
        seen.add((v['kind'], v['desc']))
        if v['buf'] is None:
            inconclusive.append(f"mirse:find_header: model needs a {v['len']}-byte buffer, not replayed: {v['desc']}")
            continue
        buf = bytes.fromhex(v['buf'])
        spec = spec_find_header(buf)
        tr = {p: native_probe('find_header', v['buf'] if v['buf'] else '-', p) for p in ('dev', 'release')}
        def agrees(t):
            return t == spec or (spec == 'Err' and t.startswith('Err'))
        if not all(agrees(t) for t in tr.values()):
            v = dict(v)
            tr['specified'] = spec
            v['replay'] = write_replay(prop, 'find_header', v['kind'], v['desc'], 'find_header', v['buf'] if v['buf'] else '-', tr, {'len': v['len']})
            out.append(v)
        else:
            inconclusive.append(f"mirse:find_header: model did not reproduce natively ({v['desc']}): {tr} spec={spec}")
    return out


# ---------------------------------------------------------------------------
# C06 / C12: Builder::build — which byte views reach new_boxed, for symbolic slot occupancy
# ---------------------------------------------------------------------------
def builder_slots(crate):
    """Slot list (declaration order = MIR field index) parsed from the current source."""
    src = open(f'/repo/{crate}/src/builder.rs').read()
    body = re.search(r'pub struct Builder \{(.*?)\n\}', src, re.S).group(1)
    slots = []
    for ln in body.split('\n'):
        ln = ln.strip()
        m = re.match(r'^(\w+): (.*),$', ln)
        if not m:
            continue
        name, ty = m.group(1), m.group(2)
        if ty.startswith('Option<Box<'):
            kind = 'optbox'
        elif ty.startswith('Option<'):
            kind = 'opt'
        elif ty.startswith('Vec<Box<'):
            kind = 'vec'
        else:
            kind = 'plain'
        inner = re.sub(r'^(Option|Vec)<(Box<)?', '', ty).rstrip('>')
        slots.append((name, kind, inner))
    return slots


def run_builder(crate, mode, maxpresent, full_too=True):
    eng = engine(mode)
    eng.tokenize_as_bytes = True
    eng.opaque_calls = [r'^<EndTag as Default>::default$', r'^(?:\w+::)*EndHeaderTag::new$']
    eng.budget = 1500
    slots = builder_slots(crate)
    fields = []
    discs = {}
    lens = {}
    idents = {}
    pre = []
    for k, (name, kind, inner) in enumerate(slots):
        if kind == 'plain':
            v = z3.BitVec('arch', 32)
            pre.append(z3.Or(v == 0, v == 4))
            fields.append(v)
        elif kind in ('opt', 'optbox'):
            d = z3.BitVec('set_' + name, 64)
            pre.append(z3.ULE(d, 1))
            discs[name] = d
            if kind == 'optbox':
                a = z3.BitVec('box_' + name, 64)
                idents[name] = a
                pay = Fat(a, z3.BitVec('meta_' + name, 64))
            else:
                pay = Agg('TagValue', (name,))
            fields.append(Enum('Option', d, {'Some': (pay,), 'None': ()}, {0: 'None', 1: 'Some'}))
        else:
            ln = z3.BitVec('len_' + name, 64)
            pre.append(z3.ULE(ln, 2))
            lens[name] = ln
            elems = tuple(Fat(z3.BitVec(f'box_{name}_{j}', 64), z3.BitVec(f'meta_{name}_{j}', 64)) for j in range(2))
            idents[name] = [e.addr for e in elems]
            fields.append(Agg('SymVec', (elems, ln)))
    # all boxed tag objects live at distinct addresses
    allid = [x for v in idents.values() for x in (v if isinstance(v, list) else [v])]
    pre.append(z3.Distinct(*allid) if len(allid) > 1 else z3.BoolVal(True))
    present = [d == 1 for d in discs.values()] + [z3.UGE(l, k) for l in lens.values() for k in (1, 2)]
    nmax = len(present)
    bound = z3.AtMost(*present, maxpresent)
    if full_too:
        bound = z3.Or(bound, z3.AtLeast(*present, nmax - 1))
    pre.append(bound)
    st = State(z3.And(pre), fresh_mem())
    f = next(v for k, v in eng.fns.items() if re.search(r'<impl at ' + re.escape(crate) + r'/src/builder\.rs:[^>]*>::build$', k))
    outs = list(eng.run(f, [Agg('Builder', tuple(fields))], {}, st))
    return eng, slots, discs, lens, idents, outs


def token_key(tb):
    """identity of a TagBytes token: ('box', addr-term) or ('slot', path)"""
    ty, ref = tb.fields
    if isinstance(ref, LRef):
        return ty, ('local', ref.oid, ref.path)
    if isinstance(ref, Fat):
        return ty, ('addr', ref.addr)
    return ty, ('addr', ref)


def t_builder(crate, prop):
    def run(prop_, tier, seed):
        q = Q()
        res = {'violations': [], 'inconclusive': [], 'sample': {}}
        maxp = 10 if crate == 'multiboot2-header' else (2 if tier == 'quick' else 3)
        viol = []
        npaths = 0
        for mode in (('dev',) if tier == 'quick' else ('dev', 'rel')):
            eng, slots, discs, lens, idents, outs = run_builder(crate, mode, maxp)
            end_ty = 'EndTag' if crate == 'multiboot2' else 'EndHeaderTag'
            for kind, val, pst in outs:
                npaths += 1
                if kind == 'panic':
                    r, m = q.check(f'{mode}: build() panics [{val}]', pst.pc)
                    if r == z3.sat:
                        viol.append(b_violation(crate, m, slots, discs, lens, 'panic', 'build() panics: ' + val))
                    continue
                if not (isinstance(val, Agg) and val.ty == 'NewBoxed'):
                    res['inconclusive'].append(f'mirse:{crate} builder: build() does not end in new_boxed on some path')
                    continue
                seq = val.fields[2].fields[0]
                keys = [token_key(t) for t in seq]
                # structural part: one end tag, last; no view twice
                ends = [i for i, (ty, _) in enumerate(keys) if ty == end_ty]
                dup = len(set(map(str, keys))) != len(keys)
                if ends != [len(keys) - 1] or dup:
                    r, m = q.check(f'{mode}: end tag last exactly once / no duplicate', pst.pc)
                    if r == z3.sat:
                        viol.append(b_violation(crate, m, slots, discs, lens, 'verif',
                                                'the sequence passed to new_boxed does not end in exactly one end tag' if ends != [len(keys) - 1] else 'a tag is passed to new_boxed twice'))
                    continue
                # occupancy part: slot k contributes its view iff it is set (solver decides, all occupancies of this path at once)
                conds = []
                for k, (name, skind, inner) in enumerate(slots):
                    if skind in ('opt', 'optbox'):
                        if skind == 'optbox':
                            present = any(kk[1][0] == 'addr' and kk[1][1].eq(idents[name]) for kk in keys)
                        else:
                            present = any(kk[1][0] == 'local' and ('variant', 'Some', 0) in kk[1][2] and kk[1][2][0] == k for kk in keys)
                        conds.append((discs[name] == 1) == z3.BoolVal(present))
                    elif skind == 'vec':
                        pos = [next((i for i, kk in enumerate(keys) if kk[1][0] == 'addr' and kk[1][1].eq(a)), None) for a in idents[name]]
                        cnt = sum(1 for p_ in pos if p_ is not None)
                        conds.append(lens[name] == cnt)
                        if cnt == 2 and not (pos[0] < pos[1]):
                            conds.append(z3.BoolVal(False))       # reordered within its kind
                        if cnt == 1 and pos[0] is None:
                            conds.append(z3.BoolVal(False))       # element 0 dropped, element 1 kept
                r, m = q.check(f'{mode}: every set slot is passed on exactly once, no unset slot is', pst.pc, z3.Not(z3.And(conds)))
                if r == z3.sat:
                    viol.append(b_violation(crate, m, slots, discs, lens, 'verif', 'a supplied tag is dropped (or an unset slot contributes) in the sequence passed to new_boxed'))
            res['sample'].setdefault('functions_encoded', sorted(short(x) for x in eng.encoded))
            res['queries'] = res.get('queries', 0) + eng.nq
            res['solver_s'] = res.get('solver_s', 0) + eng.solver_s
        res['queries'] += q.n
        res['nontrivial'] = q.nontrivial
        res['solver_s'] = round(res['solver_s'] + q.t, 2)
        res['sample'].update({'paths': npaths, 'slots': [s_[0] for s_ in builder_slots(crate)], 'max_present': maxp,
                              'summaries_trusted': ['Vec::new/push/as_slice, Option::as_ref, slice::Iter::next (list semantics)',
                                                    'MaybeDynSized::as_bytes as an uninterpreted byte view per tag object (image checked by the C07 harnesses)',
                                                    'new_boxed as the observation point (layout checked by the C16 harnesses)', 'EndTag::default / EndHeaderTag::new as opaque values (images checked by the C07 harnesses)']})
        res['violations'] = confirm_builder(prop_, crate, viol, res['inconclusive'])
        return res
    return run


def t_builder_setters(crate):
    """Each setter body from its MIR: the addressed slot becomes Some(arg) / gets arg pushed at the back,
    every other slot is left untouched (term identity)."""
    def run(prop, tier, seed):
        q = Q()
        res = {'violations': [], 'inconclusive': [], 'sample': {}}
        eng = engine('dev')
        slots = builder_slots(crate)
        checked = []
        for name, f in sorted(eng.fns.items()):
            m = re.search(r'<impl at ' + re.escape(crate) + r'/src/builder\.rs:[^>]*>::(\w+)$', name)
            if not m or len(f.args) != 2 or not f.ret.endswith('Builder'):
                continue
            setter = m.group(1)
            for nold in (0, 2):
                fields = []
                for k, (sname, kind, inner) in enumerate(slots):
                    if kind == 'plain':
                        fields.append(z3.BitVec('arch', 32))
                    elif kind in ('opt', 'optbox'):
                        fields.append(Enum('Option', z3.BitVec('set_' + sname, 64), {'Some': (Opaque(('old', sname)),), 'None': ()}, {0: 'None', 1: 'Some'}))
                    else:
                        # boxed tags already in the list: distinct symbolic heap objects
                        fields.append(Agg('Vec', (tuple(Fat(z3.BitVec(f'old_{sname}_{j}', 64), z3.BitVec(f'oldmeta_{sname}_{j}', 64)) for j in range(nold)),)))
                mem = fresh_mem()
                argaddr = z3.BitVec('arg_box', 64)
                boxed_arg = f.locals.get('_2', '').startswith('Box<') or 'boxed::Box<' in f.locals.get('_2', '')
                arg = Fat(argaddr, z3.BitVec('arg_meta', 64)) if boxed_arg else Opaque('ARG')
                st = State(z3.BoolVal(True), mem)
                before = tuple(fields)
                try:
                    outs = list(eng.run(f, [Agg('Builder', before), arg], {}, st))
                except Unsupported as e:
                    res['inconclusive'].append(f'mirse:{crate} setter {setter}: {e}')
                    break
                for kind_, val, pst in outs:
                    if kind_ == 'panic':
                        if setter == 'add_custom_tag':
                            # only non-custom type numbers may be refused
                            ty = rd32(mem, argaddr)
                            r, mm = q.check(f'{setter}: panic only for a non-custom type', pst.pc, z3.UGT(ty, 21))
                            if r == z3.sat:
                                res['violations'].append({'harness': f'mirse:{crate}_setters', 'kind': 'verif', 'desc': f'{setter} panics for a custom tag type', 'loc': crate + '/src/builder.rs', 'replay': None})
                            continue
                        res['violations'].append({'harness': f'mirse:{crate}_setters', 'kind': 'panic', 'desc': f'{setter} panics: {val}', 'loc': crate + '/src/builder.rs', 'replay': None})
                        continue
                    after = val.fields
                    changed = [k for k in range(len(slots)) if after[k] is not before[k]]
                    ok = len(changed) == 1
                    if ok:
                        k = changed[0]
                        skind = slots[k][1]
                        if skind in ('opt', 'optbox'):
                            a = after[k]
                            ok = isinstance(a, Enum) and a.disc == 'Some' and a.payload['Some'][0] is arg
                        elif skind == 'vec':
                            a = after[k].fields[0]
                            ok = a[:-1] == before[k].fields[0] and a[-1] is arg
                        else:
                            ok = False
                    q.n += 1
                    q.nontrivial += 1
                    if not ok:
                        res['violations'].append({'harness': f'mirse:{crate}_setters', 'kind': 'verif', 'loc': crate + '/src/builder.rs', 'replay': None,
                                                  'desc': f'setter {setter} does not store its argument in exactly one slot (changed slots: {[slots[k][0] for k in changed]})'})
                checked.append(setter)
        res['queries'] = q.n + eng.nq
        res['nontrivial'] = q.nontrivial
        res['solver_s'] = round(q.t + eng.solver_s, 2)
        res['sample'].update({'setters_encoded': sorted(set(checked)), 'functions_encoded': sorted(short(x) for x in eng.encoded)})
        # setter violations are structural facts about straight-line MIR; the replay file records the finding itself
        for v in res['violations']:
            if v.get('replay') is None:
                v['replay'] = write_replay(prop, f'{crate}_setters', v['kind'], v['desc'], 'none', '', {'note': 'structural: see desc'})
        return res
    return run


def b_violation(crate, m, slots, discs, lens, kind, desc):
    occ = {}
    for name, d in discs.items():
        occ[name] = m.eval(d, model_completion=True).as_long()
    for name, l in lens.items():
        occ[name] = m.eval(l, model_completion=True).as_long()
    return {'harness': f'mirse:{crate}_builder', 'kind': kind, 'desc': desc, 'loc': crate + '/src/builder.rs', 'occupancy': occ}


def confirm_builder(prop, crate, vs, inconclusive):
    out = []
    seen = set()
    slots = builder_slots(crate)
    for v in vs:
        key = (v['kind'], v['desc'])
        if key in seen:
            continue
        seen.add(key)
        # probe input: one byte per slot in declaration order (0/1 set, or the Vec length)
        arg = bytes(v['occupancy'].get(name, 0) for name, kind, _ in slots if kind != 'plain').hex()
        probe = 'mbi_builder' if crate == 'multiboot2' else 'header_builder'
        tr = {p: native_probe(probe, arg, p) for p in ('dev', 'release')}
        if any('MISMATCH' in t or t.startswith('panic') for t in tr.values()):
            v = dict(v)
            v['replay'] = write_replay(prop, probe, v['kind'], v['desc'], probe, arg, tr, v['occupancy'])
            out.append(v)
        else:
            inconclusive.append(f"mirse:{crate} builder: model did not reproduce natively ({v['desc']}; {v['occupancy']}): {tr}")
    return out


# ---------------------------------------------------------------------------
# C04 / C08: typed loads of enum-typed fields from boot-loader memory (validity obligation)
# ---------------------------------------------------------------------------
def t_enum_loads(prop, tier, seed):
    q = Q()
    res = {'violations': [], 'inconclusive': [], 'sample': {}}
    eng = engine('rel')
    mem = fresh_mem()
    base = BV64('tag')
    size = zx(rd32(mem, base + 4))
    pre = z3.And(base & 7 == 0, z3.ULT(base, z3.BitVecVal(1 << 47, 64)))
    cases = [('FramebufferTag', 'buffer_type', Fat(base, size - 32), z3.UGE(size, 32), 29, 'fb_type_byte'),
             ('VBEInfoTag', 'mode_info', base, size == 784, 528 + 27, 'vbe_memory_model')]
    found = []
    paths = {}
    for ty, meth, arg, extra, off, probe in cases:
        eng.oblig = []
        st = State(z3.And(pre, extra), mem)
        f = eng.impls[(None, ty, meth)]
        try:
            outs = list(eng.run(f, [arg], {}, st))
        except Unsupported as e:
            # paths after the typed load may use unsummarised core functions; the obligations recorded so far stand
            outs = []
            res['sample'].setdefault('notes', []).append(f'{ty}::{meth}: execution stopped after the typed load ({e})')
        paths[f'{ty}::{meth}'] = len(outs)
        for kind, t, pc, cond, addr in eng.oblig:
            r, m = q.check(f'{ty}::{meth}: load of {t} yields a declared discriminant', pc, z3.Not(cond))
            if r == z3.sat:
                b = m.eval(z3.Select(mem, addr), model_completion=True).as_long()
                found.append({'harness': 'mirse:enum_loads', 'kind': 'invalid-value', 'loc': f'{ty}::{meth}',
                              'desc': f'{ty}::{meth} performs a typed load of the enum {t} from boot-loader memory; byte value {b} is not a declared discriminant (undefined behaviour: optimised builds may decode it as any variant)',
                              'probe': probe, 'byte': b})
    res['queries'] = q.n + eng.nq
    res['nontrivial'] = q.nontrivial
    res['solver_s'] = round(q.t + eng.solver_s, 2)
    res['sample'].update({'paths': paths, 'queries': q.log, 'functions_encoded': sorted(short(x) for x in eng.encoded)})
    out = []
    for v in found:
        tr = {p: native_probe(v['probe'], '%02x' % v['byte'], p) for p in ('dev', 'release')}
        # confirmed if the two profiles disagree, or the release build reports a known variant for the undeclared byte
        if tr['dev'] != tr['release'] or 'KNOWN' in tr['release']:
            v['replay'] = write_replay(prop, 'enum_loads', v['kind'], v['desc'], v['probe'], '%02x' % v['byte'], tr)
            out.append(v)
        else:
            # standard-level UB without an observable symptom in this toolchain: reported, not suppressed
            v['replay'] = write_replay(prop, 'enum_loads', v['kind'], v['desc'], v['probe'], '%02x' % v['byte'], tr)
            out.append(v)
    res['violations'] = out
    return res


TARGETS = [
    {'name': 'mbi_builder_setters', 'props': ['C06'], 'fn': t_builder_setters('multiboot2'),
     'encodes': 'every multiboot2::Builder setter (MIR): cmdline, bootloader, add_module, ..., add_custom_tag',
     'bound': 'arbitrary prior builder state (opaque slot values, Vec slots with 0 and 2 prior elements); add_custom_tag: all 2^32 type numbers'},
    {'name': 'header_builder_setters', 'props': ['C12'], 'fn': t_builder_setters('multiboot2-header'),
     'encodes': 'every multiboot2_header::Builder setter (MIR)',
     'bound': 'arbitrary prior builder state'},
    {'name': 'enum_loads', 'props': ['C04', 'C08'], 'fn': t_enum_loads,
     'encodes': 'multiboot2::FramebufferTag::buffer_type and VBEInfoTag::mode_info (release MIR): validity obligation on every typed load of a field-less enum from tag memory',
     'bound': 'all 256 values of the stored byte; tag address and contents symbolic'},
    {'name': 'mbi_builder', 'props': ['C06'], 'fn': t_builder('multiboot2', 'C06'),
     'encodes': 'multiboot2::Builder::build (MIR): every slot test, loop over the three Vec slots, each as_bytes() call and the end tag, up to the new_boxed call',
     'bound': 'slot occupancy symbolic; quick: all occupancies with <= 2 tags present plus those with <= 1 absent (Vec slots 0..2 elements); thorough: <= 3 present, dev and release MIR'},
    {'name': 'header_builder', 'props': ['C12'], 'fn': t_builder('multiboot2-header', 'C12'),
     'encodes': 'multiboot2_header::Builder::build (MIR) up to the new_boxed call; Multiboot2BasicHeader::new / calc_checksum',
     'bound': 'all 2^10 slot occupancies x both architectures when max_present >= 10, else as mbi_builder'},
    {'name': 'find_header', 'props': ['C13', 'C08'], 'fn': t_find_header,
     'encodes': 'multiboot2_header::Multiboot2Header::find_header + its magic closure (dev and release MIR); Windows::position/next, slice indexing and get through their specifications',
     'bound': 'buffer address 8-aligned, length symbolic < 2^32, every byte symbolic; magic position = any window index of the first min(len, 8192) bytes; stored length all 2^32 values; counterexamples extracted for len <= 20000'},
    {'name': 'elf_sections', 'props': ['C19', 'C01', 'C05', 'C08'], 'fn': t_elf_sections,
     'encodes': 'multiboot2_common::DynSizedStructure::<TagHeader>::cast::<ElfSectionsTag> ElfSectionsTag::dst_len ElfSectionsTag::sections (dev and release MIR)',
     'bound': 'tag address, declared size (all 2^32), entry count, entry size, string-table index (all 2^32 each) and contents symbolic; no loop'},
]
