"""Regenerates the MIR dumps of the three crates from /repo's current working tree."""
import os, subprocess, shutil, hashlib, time, concurrent.futures

REPO = '/repo'
OUT = '/verif/build/mir'
CRATES = ['multiboot2-common', 'multiboot2', 'multiboot2-header']
FLAGS = {
    'dev': '--cfg multiboot2_verif -C overflow-checks=on -C debug-assertions=on',
    'rel': '--cfg multiboot2_verif -C overflow-checks=off -C debug-assertions=off',
}


def _dump(mode):
    env = dict(os.environ)
    env['RUSTFLAGS'] = FLAGS[mode]
    env['CARGO_TARGET_DIR'] = os.path.join(OUT, 'target-' + mode)
    env['CARGO_NET_OFFLINE'] = 'true'
    shutil.rmtree(env['CARGO_TARGET_DIR'], ignore_errors=True)   # fresh target => cargo really re-runs rustc
    res = {}
    for c in CRATES:
        out = os.path.join(OUT, f'{c}-{mode}.mir')
        with open(out, 'w') as fo, open(out + '.err', 'w') as fe:
            p = subprocess.run(['cargo', '+nightly', 'rustc', '--offline', '--lib', '--', '-Zunpretty=mir'],
                               cwd=os.path.join(REPO, c), env=env, stdout=fo, stderr=fe)
        if p.returncode != 0 or os.path.getsize(out) < 1000:
            raise RuntimeError(f'MIR dump failed for {c} ({mode}): see {out}.err')
        res[c] = out
    return mode, res


def regenerate(modes=('dev', 'rel')):
    os.makedirs(OUT, exist_ok=True)
    t0 = time.time()
    with concurrent.futures.ThreadPoolExecutor(max_workers=len(modes)) as ex:
        r = dict(ex.map(_dump, modes))
    return r, time.time() - t0


def paths(mode):
    return [os.path.join(OUT, f'{c}-{mode}.mir') for c in CRATES]
