#!/usr/bin/env python3
"""Prototype: path-by-path symbolic execution of rustc's textual MIR with z3.
Feasibility probe only (scope: integer kernels, struct refs, calls into other dumped fns)."""
import re, sys, z3

INT = {'u8':8,'u16':16,'u32':32,'u64':64,'usize':64,'i8':8,'i16':16,'i32':32,'i64':64,'isize':64,'bool':1}

class Fn:
    def __init__(s, name, sig): s.name=name; s.sig=sig; s.locals={}; s.blocks={}; s.args=[]; s.ret=None

def parse(path):
    fns={}; consts={}
    lines=open(path).read().split('\n')
    i=0; ctfe=False
    while i < len(lines):
        l=lines[i]
        if l.startswith('// MIR FOR CTFE'): ctfe=True; i+=1; continue
        m=re.match(r'^(fn|const|static) (.*?)(\(.*\))?( -> (.*?))? (=|\{)\s*(.*)$', l)
        if l.startswith('fn ') or l.startswith('const '):
            if l.startswith('const ') and l.rstrip().endswith(';'):
                m=re.match(r'^const (.*?): (.*?) = const (.*);$', l)
                if m: consts[m.group(1)]=('lit',m.group(3),m.group(2))
                i+=1; ctfe=False; continue
            # header
            if l.startswith('fn '):
                m=re.match(r'^fn (.*)\((.*)\) -> (.*) \{$', l)
                name=m.group(1); f=Fn(name,l); f.ret=m.group(3)
                f.args=[a.split(':')[0].strip() for a in split_top(m.group(2))] if m.group(2).strip() else []
                for a in split_top(m.group(2)) if m.group(2).strip() else []:
                    n,t=a.split(':',1); f.locals[n.strip()]=t.strip()
            else:
                m=re.match(r'^const (.*?): (.*) = \{$', l)
                name=m.group(1); f=Fn(name,l); f.ret=m.group(2)
            i+=1; cur=None
            while not lines[i].startswith('}'):
                s=lines[i].strip()
                m=re.match(r'^let (mut )?(_\d+): (.*);$', s)
                if m: f.locals[m.group(2)]=m.group(3)
                m=re.match(r'^(bb\d+)( \(cleanup\))?: \{$', s)
                if m: cur=m.group(1); f.blocks[cur]=[]
                elif cur and s=='}': cur=None
                elif cur and s: f.blocks[cur].append(s)
                i+=1
            if not ctfe:
                (consts if l.startswith('const ') else fns).setdefault(name, f)
            ctfe=False
        i+=1
    return fns, consts

def split_top(s, sep=','):
    out=[];d=0;cur=''
    for ch in s:
        if ch in '([{<': d+=1
        if ch in ')]}>': d-=1
        if ch==sep and d==0: out.append(cur.strip()); cur=''
        else: cur+=ch
    if cur.strip(): out.append(cur.strip())
    return out

class Panic(Exception):
    def __init__(s,msg): s.msg=msg
class Unsupported(Exception): pass

class Obj:  # struct-like object with numbered fields
    def __init__(s, fields): s.f=dict(fields)
class Ref:
    def __init__(s,obj): s.obj=obj

class Engine:
    def __init__(s, dumps, sizes):
        s.fns={}; s.consts={}
        for d in dumps:
            f,c=parse(d); s.fns.update(f); s.consts.update(c)
        s.sizes=sizes; s.solver=z3.Solver(); s.paths=[]
    def find(s, pat):
        c=[n for n in s.fns if re.search(pat,n)]
        if len(c)!=1: raise Unsupported(f'fn {pat}: {c}')
        return s.fns[c[0]]
    def bits(s,t):
        t=t.strip()
        if t in INT: return INT[t]
        if t.startswith('*') or t.startswith('&'): return 64
        raise Unsupported('type '+t)
    def const(s, txt, subst):
        txt=txt.strip()
        m=re.match(r'^(-?\d+)_(\w+)$', txt)
        if m: return z3.BitVecVal(int(m.group(1)), INT[m.group(2)])
        if txt=='true': return z3.BitVecVal(1,1)
        if txt=='false': return z3.BitVecVal(0,1)
        if txt in s.consts:
            c=s.consts[txt]
            if isinstance(c,tuple): return s.const(c[1],subst)
            outs=list(s.run(c,[],subst,z3.BoolVal(True)))
            assert len(outs)==1 and outs[0][0]=='ret'; return outs[0][1]
        raise Unsupported('const '+txt)
    # ---- places / operands
    def rd(s, env, place):
        place=place.strip()
        m=re.match(r'^\((.*): ([^:]*)\)$', place)   # typed field projection
        if m and bal(m.group(1)):
            inner=m.group(1);
            m2=re.match(r'^(.*)\.(\d+)$', inner)
            base=s.rd(env,m2.group(1)); k=int(m2.group(2))
            if isinstance(base,tuple): return base[k]
            if isinstance(base,Obj): return base.f[k]
            raise Unsupported('field of '+repr(base))
        m=re.match(r'^\(\*(_\d+)\)$', place)
        if m:
            r=env[m.group(1)]
            if isinstance(r,Ref): return r.obj
            raise Unsupported('deref '+repr(r))
        if place in env: return env[place]
        raise Unsupported('place '+place)
    def op(s, env, o, subst):
        o=o.strip()
        if o.startswith('copy ') or o.startswith('move '): return s.rd(env,o[5:])
        if o.startswith('const '): return s.const(o[6:],subst)
        raise Unsupported('operand '+o)
    def rvalue(s, env, rv, ty, subst):
        rv=rv.strip()
        m=re.match(r'^(\w+)\((.*)\)$', rv)
        if m and m.group(1) in ('Add','Sub','Mul','BitAnd','BitOr','BitXor','Eq','Ne','Lt','Le','Gt','Ge','Rem','Div','Shl','Shr',
                                'AddWithOverflow','SubWithOverflow','MulWithOverflow','Not','Neg'):
            opn=m.group(1); a=[s.op(env,x,subst) for x in split_top(m.group(2))]
            signed = ty.strip().startswith('i') or (ty.strip().startswith('(i'))
            b2=lambda c: z3.If(c,z3.BitVecVal(1,1),z3.BitVecVal(0,1))
            if opn=='Not': return ~a[0]
            x,y=a
            if opn=='Add': return x+y
            if opn=='Sub': return x-y
            if opn=='Mul': return x*y
            if opn=='BitAnd': return x&y
            if opn=='BitOr': return x|y
            if opn=='BitXor': return x^y
            if opn=='Eq': return b2(x==y)
            if opn=='Ne': return b2(x!=y)
            if opn=='Lt': return b2(z3.ULT(x,y))
            if opn=='Le': return b2(z3.ULE(x,y))
            if opn=='Gt': return b2(z3.UGT(x,y))
            if opn=='Ge': return b2(z3.UGE(x,y))
            if opn=='Rem': return z3.URem(x,y)
            if opn=='Div': return z3.UDiv(x,y)
            if opn=='AddWithOverflow': return (x+y, b2(z3.Not(z3.BVAddNoOverflow(x,y,False))))
            if opn=='SubWithOverflow': return (x-y, b2(z3.Not(z3.BVSubNoUnderflow(x,y,False))))
            if opn=='MulWithOverflow': return (x*y, b2(z3.Not(z3.BVMulNoOverflow(x,y,False))))
            raise Unsupported(opn)
        m=re.match(r'^(.*) as (\w+) \(IntToInt\)$', rv)
        if m:
            v=s.op(env,m.group(1),subst); n=INT[m.group(2)]; w=v.size()
            return v if n==w else (z3.Extract(n-1,0,v) if n<w else z3.ZeroExt(n-w,v))
        m=re.match(r'^discriminant\((.*)\)$', rv)
        if m:
            v=s.rd(env,m.group(1))
            return z3.ZeroExt(64-v.size(),v) if v.size()<64 else v
        if rv.startswith('&'):
            inner=rv.lstrip('&').strip()
            inner=re.sub(r'^(mut|raw const|raw mut) ','',inner)
            m=re.match(r'^\(\*(_\d+)\)$', inner)
            if m: return env[m.group(1)]
            return Ref(s.rd(env,inner)) if isinstance(s.rd(env,inner),Obj) else Unsupported
        return s.op(env,rv,subst)
    # ---- execution (generator of outcomes): ('ret',val,pc) | ('panic',msg,pc)
    def run(s, f, args, subst, pc, depth=0):
        env={}
        for n,a in zip(f.args,args): env[n]=a
        yield from s.block(f,'bb0',env,subst,pc,depth)
    def feasible(s,pc):
        s.solver.push(); s.solver.add(pc); r=s.solver.check(); s.solver.pop(); return r==z3.sat
    def block(s,f,bb,env,subst,pc,depth):
        env=dict(env)
        for st in f.blocks[bb]:
            st=st.rstrip(';')
            if re.match(r'^(StorageLive|StorageDead|nop|ConstEvalCounter|FakeRead|Retag|PlaceMention|Coverage)', st): continue
            # terminators
            if st=='return': yield ('ret',env.get('_0'),pc); return
            if st=='unreachable': return
            m=re.match(r'^goto -> (bb\d+)$', st)
            if m: yield from s.block(f,m.group(1),env,subst,pc,depth); return
            m=re.match(r'^switchInt\((.*)\) -> \[(.*)\]$', st)
            if m:
                v=s.op(env,m.group(1),subst); taken=[]
                for t in split_top(m.group(2)):
                    k,tgt=[x.strip() for x in t.split(':')]
                    if k=='otherwise': c=z3.And([v!=x for x in taken]) if taken else z3.BoolVal(True)
                    else:
                        kv=z3.BitVecVal(int(k),v.size()); taken.append(kv); c=(v==kv)
                    npc=z3.And(pc,c)
                    if s.feasible(npc): yield from s.block(f,tgt,env,subst,npc,depth)
                return
            m=re.match(r'^assert\((!?)(.*?), "(.*?)".*\) -> \[success: (bb\d+), .*\]$', st)
            if m:
                c=s.op(env,m.group(2),subst); ok=(c==0) if m.group(1)=='!' else (c==1)
                bad=z3.And(pc,z3.Not(ok))
                if s.feasible(bad): yield ('panic',m.group(3),bad)
                good=z3.And(pc,ok)
                if s.feasible(good): yield from s.block(f,m.group(4),env,subst,good,depth)
                return
            m=re.match(r'^(?:(.*?) = )?([^=]*?)\((.*)\) -> (?:\[return: (bb\d+), .*\]|unwind .*)$', st)
            if m and not st.startswith('assert'):
                dst,callee,argtxt,retbb=m.groups()
                for out in s.call(callee.strip(),[s.op(env,a,subst) for a in split_top(argtxt)],subst,pc,depth):
                    if out[0]=='panic' or retbb is None: yield ('panic',out[1],out[2]) if out[0]=='panic' else out; continue
                    e2=dict(env);
                    if dst: e2[dst.strip()]=out[1]
                    yield from s.block(f,retbb,e2,subst,out[2],depth)
                return
            m=re.match(r'^(_\d+) = (.*)$', st)
            if m:
                env[m.group(1)]=s.rvalue(env,m.group(2),f.locals.get(m.group(1),''),subst); continue
            raise Unsupported('stmt '+st)
    def call(s, callee, args, subst, pc, depth):
        m=re.match(r'^core::mem::size_of::<(.*)>$', callee)
        if m:
            t=subst.get(m.group(1),m.group(1)); yield ('ret',z3.BitVecVal(s.sizes[t],64),pc); return
        m=re.match(r'^<(\w+) as (\w+)>::(\w+)$', callee)
        if m:
            ty=subst.get(m.group(1),m.group(1)); key=(m.group(2),ty,m.group(3))
            f=s.impls[key]; yield from s.run(f,args,subst,pc,depth+1); return
        if callee=='panic' or callee.startswith('core::panicking'):
            yield ('panic','explicit panic',pc); return
        cand=[n for n in s.fns if n==callee or n.endswith('::'+callee.split('::')[-1]) and callee.split('::')[-1] in n]
        if callee in s.fns: yield from s.run(s.fns[callee],args,subst,pc,depth+1); return
        raise Unsupported('call '+callee)

def bal(x):
    d=0
    for ch in x:
        if ch=='(': d+=1
        if ch==')':
            d-=1
            if d<0: return False
    return d==0

def outcome_fn(eng, f, args, subst):
    """fold the path outcomes into (panics: Bool, value: BV)"""
    outs=list(eng.run(f,args,subst,z3.BoolVal(True)))
    pan=z3.Or([o[2] for o in outs if o[0]=='panic']+[z3.BoolVal(False)])
    val=None
    for o in outs:
        if o[0]=='ret': val=o[1] if val is None else z3.If(o[2],o[1],val)
    return pan,val,outs

if __name__=='__main__':
    sizes={'BootInformationHeader':8,'TagHeader':8,'Multiboot2BasicHeader':16,'HeaderTagHeader':8,'Self':None}
    res={}
    for mode in ('dev','rel'):
        d={'dev':['/scratch/common-dev.mir','/scratch/mb2-dev.mir','/scratch/hdr-dev.mir'],
           'rel':['/scratch/multiboot2-common-rel.mir','/scratch/multiboot2-rel.mir','/scratch/multiboot2-header-rel.mir']}[mode]
        eng=Engine(d,sizes); eng.impls={}
        print(mode, len(eng.fns),'fns',len(eng.consts),'consts')
        # 1. increase_to_alignment
        x=z3.BitVec('x',64)
        res[('ita',mode)]=outcome_fn(eng,eng.fns['increase_to_alignment'],[x],{})
        # 2. BootInformationHeader::payload_len + Header::total_size
        ts=z3.BitVec('ts',32); rsv=z3.BitVec('rsv',32)
        hdr=Ref(Obj({0:ts,1:rsv}))
        pl=eng.find(r'^boot_information::<impl at .*>::payload_len$')
        eng.impls[('Header','BootInformationHeader','payload_len')]=pl
        res[('pl',mode)]=outcome_fn(eng,pl,[hdr],{})
        tsz=eng.fns['Header::total_size']
        res[('tsz',mode)]=outcome_fn(eng,tsz,[hdr],{'Self':'BootInformationHeader'})
        # 3. calc_checksum
        cc=eng.find(r'^header::<impl at .*header.rs:264.*>::calc_checksum$')
        mg=z3.BitVec('magic',32); arch=z3.BitVec('arch',32); ln=z3.BitVec('len',32)
        res[('cc',mode)]=outcome_fn(eng,cc,[mg,arch,ln],{})
    sol=z3.Solver()
    for k in ('ita','pl','tsz','cc'):
        pd,vd,_=res[(k,'dev')]; pr,vr,_=res[(k,'rel')]
        sol.push(); sol.add(z3.Or(pd!=pr, z3.And(z3.Not(pd),z3.Not(pr),vd!=vr)))
        if k=='cc': sol.add(z3.Or(arch==0,arch==4))
        r=sol.check()
        print(k,'dev==rel?', 'EQUIV' if r==z3.unsat else ('DIFF '+str(sol.model())))
        sol.pop()
    # checksum law in release semantics
    pr,vr,_=res[('cc','rel')]
    sol.push(); sol.add(z3.Or(arch==0,arch==4)); sol.add(vr+mg+arch+ln!=0); print('checksum law (rel):',sol.check()); sol.pop()
    # rounding law
    pr,vr,_=res[('ita','rel')]
    sol.push(); sol.add(z3.ULE(x,2**32)); sol.add(z3.Not(z3.And(z3.UGE(vr,x), vr&7==0, z3.ULT(vr-x,8)))); print('rounding law (rel, x<=2^32):',sol.check()); sol.pop()
