#![allow(unused)]
use multiboot2::*;
use multiboot2_common::*;

#[repr(C, align(8))]
pub struct Aligned<const N: usize>(pub [u8; N]);

#[cfg(kani)]
mod proofs {
    use super::*;
    #[kani::proof]
    #[kani::unwind(5)]
    fn elf_walk() {
        const N: usize = 128; // section area: exactly 2 x 64 or 3 x 40 + 8
        let b = Aligned::<N>(kani::any());
        let n: u32 = kani::any();
        let esz: u32 = kani::any();
        kani::assume(n <= 3);
        kani::assume((n as usize) * (esz as usize) <= N);
        let base = b.0.as_ptr();
        let mut it = ElfSectionIter::__verif_from_parts(base, n, esz, base);
        let mut yielded = 0u32;
        while let Some(s) = it.next() {
            let raw = s.section_type_raw();
            let st = s.section_type();
            assert!(st != ElfSectionType::Unused, "VERIF only in-use yielded");
            let a = s.start_address();
            let z = s.size();
            let al = s.addralign();
            let f = s.flags();
            yielded += 1;
        }
        assert!(yielded <= n, "VERIF count");
        kani::cover!(yielded == 2, "two yielded");
    }

    // VBE tag in a region: cost probe
    #[kani::proof]
    #[kani::unwind(6)]
    fn vbe_region() {
        const N: usize = 8 + 784 + 8;
        let mut b = Aligned::<N>(kani::any());
        b.0[0..4].copy_from_slice(&(N as u32).to_le_bytes());
        if let Ok(bi) = unsafe { BootInformation::load(b.0.as_ptr().cast()) } {
            if let Some(t) = bi.vbe_info_tag() {
                let m = t.mode();
                assert!(m == u16::from_le_bytes([b.0[16], b.0[17]]) , "VERIF mode");
                let ci = t.control_info();
                let v = ci.version;
                assert!(v == u16::from_le_bytes([b.0[28], b.0[29]]), "VERIF version");
            }
        }
    }
}
