#!/usr/bin/env python3
"""Stage-B feasibility prototype: path-by-path symbolic execution of textual MIR with
memory (z3 array), fat pointers, aggregates/enums, generic substitution, impl resolution.
Targets: TagIter::<H>::next (one step) and DynSizedStructure::<H>::ref_from_ptr in dev/release."""
import re, sys, z3, os, itertools
from collections import namedtuple

INT = {'u8':8,'u16':16,'u32':32,'u64':64,'usize':64,'i8':8,'i16':16,'i32':32,'i64':64,'isize':64,'bool':1}
BV = z3.BitVecVal
def b2(c): return z3.If(c, BV(1,1), BV(0,1))

Fat = namedtuple('Fat','addr meta')
Agg = namedtuple('Agg','ty fields')           # fields: tuple
Enum = namedtuple('Enum','ty variant fields')  # concrete variant name
LRef = namedtuple('LRef','oid path')           # reference to a local object (per-path heap)
FnItem = namedtuple('FnItem','name')
class Unit: pass
UNIT = Unit()

VARIANT_IDX = {'None':0,'Some':1,'Ok':0,'Err':1,'Continue':0,'Break':1}

def split_top(s, sep=','):
    out=[];d=0;cur=''
    i=0
    while i < len(s):
        ch=s[i]
        if ch in '([{<': d+=1
        elif ch in ')]}': d-=1
        elif ch=='>' and (i==0 or s[i-1]!='-'): d-=1
        if ch==sep and d==0: out.append(cur.strip()); cur=''
        else: cur+=ch
        i+=1
    if cur.strip(): out.append(cur.strip())
    return out

class Fn:
    def __init__(s,name): s.name=name; s.locals={}; s.blocks={}; s.args=[]; s.ret=None; s.src=None

def parse(path):
    fns={}; consts={}
    lines=open(path).read().split('\n'); i=0; ctfe=False
    while i < len(lines):
        l=lines[i]
        if l.startswith('// MIR FOR CTFE'): ctfe=True; i+=1; continue
        if l.startswith('fn ') or l.startswith('const ') or l.startswith('static '):
            if l.rstrip().endswith(';'):
                m=re.match(r'^const (.*?): (.*?) = const (.*);$', l)
                if m: consts[m.group(1)]=('lit',m.group(3),m.group(2))
                i+=1; ctfe=False; continue
            if l.startswith('fn '):
                m=re.match(r'^fn (.*?)\((.*)\) -> (.*) \{$', l)
                f=Fn(m.group(1)); f.ret=m.group(3)
                for a in split_top(m.group(2)):
                    n,t=a.split(':',1); f.args.append(n.strip()); f.locals[n.strip()]=t.strip()
            else:
                m=re.match(r'^(?:const|static) (.*?): (.*) = \{$', l)
                f=Fn(m.group(1)); f.ret=m.group(2)
            i+=1; cur=None
            while not lines[i].startswith('}'):
                s=lines[i].strip()
                m=re.match(r'^let (mut )?(_\d+): (.*);$', s)
                if m: f.locals[m.group(2)]=m.group(3)
                m=re.match(r'^(bb\d+)( \(cleanup\))?: \{$', s)
                if m: cur=m.group(1); f.blocks[cur]=[]
                elif cur and s=='}': cur=None
                elif cur and s: f.blocks[cur].append(s)
                i+=1
            if not ctfe: (fns if l.startswith('fn ') else consts).setdefault(f.name,f)
            ctfe=False
        i+=1
    return fns,consts

class Panic(Exception): pass
class Unsupported(Exception): pass

class State:
    def __init__(s, pc, mem, heap=None): s.pc=pc; s.mem=mem; s.heap=dict(heap or {})
    def fork(s,pc): return State(pc,s.mem,s.heap)

class Engine:
    def __init__(s, dumps, layout, srcroot='/repo'):
        s.fns={}; s.consts={}
        for d in dumps:
            f,c=parse(d); s.fns.update(f); s.consts.update(c)
        s.layout=layout; s.solver=z3.Solver(); s.oid=itertools.count(); s.srcroot=srcroot
        s.impls={}; s.build_impls(); s.nq=0; s.oblig=[]
    # ---- impl resolution from "impl at file:line"
    def build_impls(s):
        cache={}
        for name,f in s.fns.items():
            m=re.match(r'^(?:(.*)::)?<impl at ([^:]+):(\d+):\d+: \d+:\d+>::(\w+)$', name)
            if not m: continue
            file,line,meth=m.group(2),int(m.group(3)),m.group(4)
            if file not in cache:
                p=os.path.join(s.srcroot,file)
                cache[file]=open(p).read().split('\n') if os.path.exists(p) else None
            if not cache[file]: continue
            txt=' '.join(cache[file][line-1:line+3])
            mm=re.match(r'^\s*(?:unsafe )?impl(?:<[^>]*>)?\s+(?:(?:[\w:]+::)?(\w+)(?:<[^{]*?>)?\s+for\s+)?(?:[\w:]+::)?&?(?:\'\w+ )?(\w+|\[\w+\])', txt)
            if mm: s.impls[(mm.group(1),mm.group(2),meth)]=f
    def size(s,t,sub):
        t=s.subst(t,sub)
        if t in INT: return max(1,INT[t]//8)
        if t.startswith('*') or t.startswith('&'): return 8
        if t in s.layout: return s.layout[t]['size']
        raise Unsupported('size of '+t)
    def subst(s,t,sub):
        t=t.strip()
        for k,v in sub.items(): t=re.sub(r'\b'+k+r'\b',v,t)
        t=re.sub(r"'\w+,? ?",'',t).replace('<>','')
        t=re.sub(r'^(?:[a-z_0-9]+::)+(?=[A-Z])','',t)   # strip module path
        return t
    def feasible(s,pc):
        s.nq+=1; s.solver.push(); s.solver.add(pc); r=s.solver.check(); s.solver.pop(); return r==z3.sat
    # ---- memory
    def load(s,st,addr,nbytes):
        bs=[z3.Select(st.mem, addr+BV(i,64)) for i in range(nbytes)]
        v=bs[0]
        for b in bs[1:]: v=z3.Concat(b,v)
        return v
    def load_ty(s,st,addr,t,sub):
        t=s.subst(t,sub)
        if t in INT: return s.load(st,addr,INT[t]//8) if t!='bool' else z3.Extract(0,0,s.load(st,addr,1))
        if t.startswith('*') or t.startswith('&'): return s.load(st,addr,8)
        L=s.layout.get(t)
        if L and 'enum' in L:
            v=s.load(st,addr,L['size']); s.oblig.append(('valid-enum',t,st.pc,z3.Or([v==BV(d,v.size()) for d in L['enum']]))); return v
        if L: return Agg(t, tuple(s.load_ty(st,addr+BV(o,64),ft,sub) for o,ft in L['fields']))
        raise Unsupported('load type '+t)
    # ---- places: returns ('val',value) | ('mem',addr,type,meta) | ('loc',oid,path)
    def place(s,f,env,st,p,sub):
        p=p.strip()
        if re.match(r'^_\d+$',p): return ('var',p)
        assert p[0]=='(' and p[-1]==')', p
        inner=p[1:-1]
        if inner.startswith('*'):
            base=s.rdplace(f,env,st,s.place(f,env,st,inner[1:],sub),sub)
            bt=s.place_type(f,env,inner[1:],sub)
            pointee=re.sub(r'^(\*const |\*mut |&mut |&)','',bt)
            if isinstance(base,LRef): return ('loc',base.oid,base.path)
            if isinstance(base,Fat): return ('mem',base.addr,pointee,base.meta)
            return ('mem',base,pointee,None)
        # field "P.k: T" or downcast "P as V"
        d=0
        for i,ch in enumerate(inner):
            if ch in '([<': d+=1
            elif ch in ')]' or (ch=='>' and inner[i-1]!='-'): d-=1
            elif d==0 and inner.startswith(': ',i):
                lhs,ft=inner[:i],inner[i+2:]
                m=re.match(r'^(.*)\.(\d+)$',lhs); base=s.place(f,env,st,m.group(1),sub); k=int(m.group(2))
                return ('field',base,k,ft)
            elif d==0 and inner.startswith(' as ',i):
                return ('downcast',s.place(f,env,st,inner[:i],sub),inner[i+4:])
        raise Unsupported('place '+p)
    def place_type(s,f,env,p,sub):
        p=p.strip()
        if re.match(r'^_\d+$',p): return s.subst(f.locals[p],sub)
        inner=p[1:-1]
        m=re.search(r': (.*)$',inner)
        if not inner.startswith('*') and m: return s.subst(split_after_colon(inner),sub)
        raise Unsupported('type of '+p)
    def rdplace(s,f,env,st,pl,sub):
        k=pl[0]
        if k=='var': return env[pl[1]]
        if k=='loc':
            v=st.heap[pl[1]]
            for i in pl[2]: v=v.fields[i]
            return v
        if k=='mem': return s.load_ty(st,pl[1],pl[2],sub) if not s.unsized(pl[2],sub) else Unsupported
        if k=='downcast': return s.rdplace(f,env,st,pl[1],sub)
        if k=='field':
            base,kk,ft=pl[1],pl[2],pl[3]
            if base[0]=='mem':
                a,_,_=s.field_addr(base,kk,sub); return s.load_ty(st,a,ft,sub)
            bv=s.rdplace(f,env,st,base,sub)
            if isinstance(bv,(Agg,Enum)): return bv.fields[kk]
            if isinstance(bv,tuple): return bv[kk]
            raise Unsupported('field of '+repr(bv))
    def unsized(s,t,sub):
        t=s.subst(t,sub); return t.startswith('[') and ';' not in t or t.startswith('DynSizedStructure')
    def field_addr(s,base,k,sub):
        _,addr,ty,meta=base; ty=s.subst(ty,sub)
        m=re.match(r'^DynSizedStructure<(.*)>$',ty)
        if m:
            off=[0,s.size(m.group(1),sub)][k]; return addr+BV(off,64),None,meta
        L=s.layout[ty]; return addr+BV(L['fields'][k][0],64),None,meta
    def addr_of(s,f,env,st,p,sub):
        pl=s.place(f,env,st,p,sub)
        if pl[0]=='var':
            oid=next(s.oid); st.heap[oid]=env[pl[1]]; env['__alias_'+pl[1]]=oid; return LRef(oid,())
        if pl[0]=='loc': return LRef(pl[1],pl[2])
        if pl[0]=='mem':
            return Fat(pl[1],pl[3]) if pl[3] is not None and s.unsized(pl[2],sub) else pl[1]
        if pl[0]=='field':
            base=pl[1]
            if base[0]=='mem':
                a,_,meta=s.field_addr(base,pl[2],sub)
                return Fat(a,meta) if s.unsized(pl[3],sub) else a
            if base[0]=='loc': return LRef(base[1],base[2]+(pl[2],))
            if base[0]=='var':
                oid=next(s.oid); st.heap[oid]=env[base[1]]; return LRef(oid,(pl[2],))
        raise Unsupported('addr_of '+p)
    def write(s,f,env,st,p,val,sub):
        pl=s.place(f,env,st,p,sub)
        if pl[0]=='var': env[pl[1]]=val; return
        if pl[0]=='field' and pl[1][0]=='loc':
            oid,path=pl[1][1],pl[1][2]+(pl[2],)
            st.heap[oid]=upd(st.heap[oid],path,val); return
        if pl[0]=='field' and pl[1][0]=='var':
            env[pl[1][1]]=upd(env[pl[1][1]],(pl[2],),val); return
        raise Unsupported('write '+p)
    # ---- constants / operands
    def const(s,txt,sub,st):
        txt=txt.strip()
        m=re.match(r'^(-?\d+)_(\w+)$',txt)
        if m: return BV(int(m.group(1)),INT[m.group(2)])
        if txt in('true','false'): return BV(txt=='true',1)
        if txt.startswith('ZeroSized') or txt=='()': return UNIT
        if txt in s.consts:
            c=s.consts[txt]
            if isinstance(c,tuple): return s.const(c[1],sub,st)
            outs=list(s.run(c,[],sub,st)); assert len(outs)==1; return outs[0][1]
        m=re.match(r'^(\w+)::(\w+)$',txt)
        if m and m.group(1)[0].isupper(): return Enum(m.group(1),m.group(2),())   # unit variant or fn item
        return FnItem(txt)
    def op(s,f,env,st,o,sub):
        o=o.strip()
        if o.startswith('copy ') or o.startswith('move '): return s.rdplace(f,env,st,s.place(f,env,st,o[5:],sub),sub)
        if o.startswith('no_retag '): return s.op(f,env,st,o[9:],sub)
        if o.startswith('const '): return s.const(o[6:],sub,st)
        return s.const(o,sub,st)   # bare fn item like LoadError::Memory
    def rvalue(s,f,env,st,rv,dty,sub):
        rv=rv.strip()
        m=re.match(r'^(\w+)\((.*)\)$',rv)
        BIN=('Add','Sub','Mul','BitAnd','BitOr','BitXor','Eq','Ne','Lt','Le','Gt','Ge','Rem','Div','Shl','Shr','AddWithOverflow','SubWithOverflow','MulWithOverflow','Offset')
        if m and m.group(1) in BIN+('Not','Neg','PtrMetadata','discriminant'):
            opn=m.group(1); a=[s.op(f,env,st,x,sub) if opn!='discriminant' else s.rdplace(f,env,st,s.place(f,env,st,x,sub),sub) for x in split_top(m.group(2))]
            if opn=='Not': return ~a[0]
            if opn=='PtrMetadata': return a[0].meta
            if opn=='discriminant':
                v=a[0]
                if isinstance(v,Enum): return BV(VARIANT_IDX.get(v.variant, s.layout.get(v.ty,{}).get('variants',{}).get(v.variant,0)),64)
                return z3.ZeroExt(64-v.size(),v) if v.size()<64 else v
            x,y=a
            if isinstance(x,Fat): x=x.addr
            return {'Add':lambda:x+y,'Sub':lambda:x-y,'Mul':lambda:x*y,'BitAnd':lambda:x&y,'BitOr':lambda:x|y,'BitXor':lambda:x^y,
                    'Eq':lambda:b2(x==y),'Ne':lambda:b2(x!=y),'Lt':lambda:b2(z3.ULT(x,y)),'Le':lambda:b2(z3.ULE(x,y)),
                    'Gt':lambda:b2(z3.UGT(x,y)),'Ge':lambda:b2(z3.UGE(x,y)),'Rem':lambda:z3.URem(x,y),'Div':lambda:z3.UDiv(x,y),
                    'AddWithOverflow':lambda:(x+y,b2(z3.Not(z3.BVAddNoOverflow(x,y,False)))),
                    'SubWithOverflow':lambda:(x-y,b2(z3.Not(z3.BVSubNoUnderflow(x,y,False)))),
                    'MulWithOverflow':lambda:(x*y,b2(z3.Not(z3.BVMulNoOverflow(x,y,False))))}[opn]()
        m=re.match(r'^(.*) as (.*?) \((\w+)(?:\(.*\))?\)$',rv)
        if m:
            v=s.op(f,env,st,m.group(1),sub); kind=m.group(3); t=m.group(2)
            if kind=='IntToInt':
                n=INT[t]; w=v.size(); return v if n==w else (z3.Extract(n-1,0,v) if n<w else z3.ZeroExt(n-w,v))
            if kind in('PtrToPtr','Transmute','MutToConstPointer'): return v
            raise Unsupported('cast '+kind)
        if rv.startswith('&'):
            inner=re.sub(r'^&(mut |raw const |raw mut )?','',rv)
            return s.addr_of(f,env,st,inner,sub)
        # aggregates
        m=re.match(r'^([\w:]+?)(::<.*>)?::(\w+)\((.*)\)$',rv)
        if m and m.group(3)[0].isupper():
            return Enum(m.group(1).split('::')[-1],m.group(3),tuple(s.op(f,env,st,x,sub) for x in split_top(m.group(4))))
        m=re.match(r'^([\w:]+?)(::<.*>)?::(None|[A-Z]\w+)$',rv)
        if m and not rv.startswith('const'): return Enum(m.group(1).split('::')[-1],m.group(3),())
        m=re.match(r'^([\w:]+?)(::<.*?>)? \{ (.*) \}$',rv)
        if m: return Agg(m.group(1).split('::')[-1],tuple(s.op(f,env,st,x.split(':',1)[1],sub) for x in split_top(m.group(3))))
        m=re.match(r'^([A-Z]\w*)(::<.*?>)?\((.*)\)$',rv)
        if m: return Agg(m.group(1),tuple(s.op(f,env,st,x,sub) for x in split_top(m.group(3))))
        if rv.startswith('(') and rv.endswith(')') and not rv.startswith('(*') and ': ' not in rv:
            return tuple(s.op(f,env,st,x,sub) for x in split_top(rv[1:-1]))
        return s.op(f,env,st,rv,sub)
    # ---- execution
    def run(s,f,args,sub,st,depth=0):
        env=dict(zip(f.args,args))
        yield from s.block(f,'bb0',env,sub,st,depth)
    def block(s,f,bb,env,sub,st,depth):
        env=dict(env)
        for stm in f.blocks[bb]:
            stm=stm.rstrip(';')
            if re.match(r'^(StorageLive|StorageDead|nop|ConstEvalCounter|FakeRead|Retag|PlaceMention|Coverage|AscribeUserType)',stm): continue
            if stm=='return': yield ('ret',env.get('_0',UNIT),st); return
            if stm=='unreachable': return
            m=re.match(r'^goto -> (bb\d+)$',stm)
            if m: yield from s.block(f,m.group(1),env,sub,st,depth); return
            m=re.match(r'^switchInt\((.*)\) -> \[(.*)\]$',stm)
            if m:
                v=s.op(f,env,st,m.group(1),sub); taken=[]
                for t in split_top(m.group(2)):
                    k,tgt=[x.strip() for x in t.split(':')]
                    if k=='otherwise': c=z3.And([v!=x for x in taken]) if taken else z3.BoolVal(True)
                    else: kv=BV(int(k),v.size()); taken.append(kv); c=(v==kv)
                    npc=z3.simplify(z3.And(st.pc,c))
                    if s.feasible(npc): yield from s.block(f,tgt,env,sub,st.fork(npc),depth)
                return
            m=re.match(r'^assert\((!?)(.*?), "(.*?)".*\) -> \[success: (bb\d+), .*\]$',stm)
            if m:
                c=s.op(f,env,st,m.group(2),sub); ok=(c==0) if m.group(1)=='!' else (c==1)
                bad=z3.And(st.pc,z3.Not(ok))
                if s.feasible(bad): yield ('panic',m.group(3)[:40]+' @'+f.name.split('::')[-1],st.fork(bad))
                good=z3.And(st.pc,ok)
                if s.feasible(good): yield from s.block(f,m.group(4),env,sub,st.fork(good),depth)
                return
            m=parse_call(stm)
            if m:
                dst,callee,argtxt,retbb=m
                args=[s.op(f,env,st,a,sub) for a in split_top(argtxt)]
                for out in s.call(callee.strip(),args,sub,st,depth):
                    if out[0]=='panic': yield out; continue
                    if retbb is None: continue
                    e2=dict(env); st2=out[2]
                    if dst: s.write(f,e2,st2,dst,out[1],sub)
                    yield from s.block(f,retbb,e2,sub,st2,depth)
                return
            m=re.match(r'^(.*?) = (.*)$',stm)
            if m:
                dst=m.group(1).strip()
                v=s.rvalue(f,env,st,m.group(2),f.locals.get(dst,''),sub)
                s.write(f,env,st,dst,v,sub); continue
            raise Unsupported('stmt '+stm)
    # ---- calls
    def call(s,callee,args,sub,st,depth):
        R=lambda v,st=st:[('ret',v,st)]
        c=callee
        m=re.match(r'^core::mem::size_of::<(.*)>$',c)
        if m: return R(BV(s.size(m.group(1),sub),64))
        if re.match(r'^core::ptr::(const_ptr|mut_ptr)::<impl \*(const|mut) .*>::(cast|cast_mut|cast_const)(::<.*>)?$',c): return R(args[0])
        if re.match(r'^core::ptr::const_ptr::<impl \*const u8>::add$',c): return R(args[0]+args[1])
        if re.match(r'^core::ptr::const_ptr::<impl \*const u8>::sub$',c): return R(args[0]-args[1])
        if re.match(r'^core::ptr::const_ptr::<impl \*const u8>::align_offset$',c):
            a,al=args; return R((al-(a&(al-1)))&(al-1))
        if c.startswith('NonNull::') and c.endswith('::as_ptr'): return R(args[0])
        if c.startswith('NonNull::') and c.endswith('::new'):
            out=[]
            for cond,v in ((args[0]==0,Enum('Option','None',())),(args[0]!=0,Enum('Option','Some',(args[0],)))):
                pc=z3.And(st.pc,cond)
                if s.feasible(pc): out.append(('ret',v,st.fork(pc)))
            return out
        if re.match(r'^core::slice::from_raw_parts::<.*>$',c): return R(Fat(args[0],args[1]))
        if c=='core::slice::<impl [u8]>::as_ptr': return R(args[0].addr)
        if c=='core::slice::<impl [u8]>::len': return R(args[0].meta)
        if c.startswith('ptr_meta::from_raw_parts::<'): return R(Fat(args[0],args[1]))
        if re.match(r'^<Result<.*> as Try>::branch$',c):
            r=args[0]
            return R(Enum('ControlFlow','Continue',r.fields) if r.variant=='Ok' else Enum('ControlFlow','Break',(Enum('Result','Err',r.fields),)))
        if re.match(r'^<Result<.*> as FromResidual<.*>>::from_residual$',c): return R(Enum('Result','Err',args[0].fields))
        if re.match(r'^Option::<.*>::ok_or::<.*>$',c):
            o=args[0]; return R(Enum('Result','Ok',o.fields) if o.variant=='Some' else Enum('Result','Err',(args[1],)))
        if re.match(r'^Result::<.*>::map_err::<.*>$',c):
            r=args[0]
            if r.variant=='Ok': return R(r)
            fi=args[1]; assert isinstance(fi,(FnItem,Enum))
            nm=fi.name if isinstance(fi,FnItem) else fi.ty+'::'+fi.variant
            t,v=nm.split('::')[-2:]; return R(Enum('Result','Err',(Enum(t,v,(r.fields[0],)),)))
        if re.match(r'^Result::<.*>::unwrap$',c):
            r=args[0]; return R(r.fields[0]) if r.variant=='Ok' else [('panic','unwrap on Err('+r.fields[0].variant+')',st)]
        if re.match(r'^<\[u8\] as Index<.*Range<usize>>>::index$',c):
            sl,rg=args; a,b=rg.fields; out=[]
            bad=z3.And(st.pc,z3.Or(z3.UGT(a,b),z3.UGT(b,sl.meta)))
            if s.feasible(bad): out.append(('panic','slice index out of range',st.fork(bad)))
            good=z3.And(st.pc,z3.ULE(a,b),z3.ULE(b,sl.meta))
            if s.feasible(good): out.append(('ret',Fat(sl.addr+a,b-a),st.fork(good)))
            return out
        if c=='panic' or c.startswith('core::panicking') or c=='panic_fmt': return [('panic','explicit panic/assert!',st)]
        # repo functions: exact, generic-inherent, or trait impl
        f,sub2=s.resolve(c,sub)
        if f is None: raise Unsupported('call '+c)
        return s.run(f,args,sub2,st,depth+1)
    def resolve(s,c,sub):
        if c in s.fns: return s.fns[c],sub
        m=re.match(r'^<(.+?) as ([\w:]+?)(?:<.*>)?>::(\w+)$',c)
        if m:
            ty=s.subst(m.group(1),sub); tyn=re.sub(r'<.*$','',ty); tr=m.group(2).split('::')[-1]
            f=s.impls.get((tr,tyn,m.group(3)))
            if f is None and (tr+'::'+m.group(3)) in s.fns: f=s.fns[tr+'::'+m.group(3)]   # provided method
            sub2=dict(sub)
            if f is not None:
                sub2['Self']=ty
                g=re.match(r'^\w+<(.*)>$',ty)
                if g: sub2['H']=g.group(1).split(',')[-1].strip()
            return f,sub2
        m=re.match(r'^(\w+)::<(.*?)>::(\w+)(::<.*>)?$',c)   # Type::<Args>::method
        if m:
            tyn,arg,meth=m.group(1),s.subst(m.group(2),sub),m.group(3)
            f=s.impls.get((None,tyn,meth)); sub2=dict(sub); sub2['H']=arg.split(',')[-1].strip()
            return f,sub2
        m=re.match(r'^(\w+)$',c)
        return (s.fns.get(c),sub)

def parse_call(stm):
    m=re.match(r'^(.*)\) -> (?:\[return: (bb\d+), .*\]|unwind .*)$',stm)
    if not m or stm.startswith('assert(') or stm.startswith('drop('): return None
    body=m.group(1); retbb=m.group(2)
    d=0
    for i in range(len(body)-1,-1,-1):   # find '(' matching the final ')'
        ch=body[i]
        if ch==')': d+=1
        elif ch=='(':
            if d==0: break
            d-=1
    head,argtxt=body[:i],body[i+1:]
    dst=None
    mm=re.match(r'^(\(?[^=]*?\)?) = (.*)$',head)
    if mm and not re.search(r'[<(]',mm.group(1).replace('(*','').replace('(_','')): dst,head=mm.group(1),mm.group(2)
    return dst,head,argtxt,retbb

def split_after_colon(inner):
    d=0
    for i,ch in enumerate(inner):
        if ch in '([<': d+=1
        elif ch in ')]' or (ch=='>' and inner[i-1]!='-'): d-=1
        elif d==0 and inner.startswith(': ',i): return inner[i+2:]
def upd(v,path,val):
    if not path: return val
    fs=list(v.fields); fs[path[0]]=upd(fs[path[0]],path[1:],val)
    return v._replace(fields=tuple(fs))

LAYOUT={
 'TagTypeId':{'size':4,'fields':[(0,'u32')]},
 'TagHeader':{'size':8,'fields':[(0,'TagTypeId'),(4,'u32')]},
 'BootInformationHeader':{'size':8,'fields':[(0,'u32'),(4,'u32')]},
 'HeaderTagType':{'size':2,'enum':list(range(11))},
 'HeaderTagFlag':{'size':2,'enum':[0,1]},
 'HeaderTagISA':{'size':4,'enum':[0,4]},
 'HeaderTagHeader':{'size':8,'fields':[(0,'HeaderTagType'),(2,'HeaderTagFlag'),(4,'u32')]},
 'Multiboot2BasicHeader':{'size':16,'fields':[(0,'u32'),(4,'HeaderTagISA'),(8,'u32'),(12,'u32')]},
}

def summarize(outs):
    res=[]
    for o in outs:
        kind=o[0]; st=o[2]
        res.append((kind, o[1] if kind=='panic' else show(o[1]), st.pc))
    return res
def show(v):
    if isinstance(v,Enum): return v.variant+'('+','.join(show(x) for x in v.fields)+')'
    if isinstance(v,Fat): return 'Fat'
    if isinstance(v,Agg): return v.ty
    return 'v'

if __name__=='__main__':
    import time; t0=time.time()
    results={}
    for mode in ('dev','rel'):
        d={'dev':['/scratch/common-dev.mir','/scratch/mb2-dev.mir','/scratch/hdr-dev.mir'],
           'rel':['/scratch/multiboot2-common-rel.mir','/scratch/multiboot2-rel.mir','/scratch/multiboot2-header-rel.mir']}[mode]
        eng=Engine(d,LAYOUT)
        mem=z3.Array('mem',z3.BitVecSort(64),z3.BitVecSort(8))
        for H in ('TagHeader','HeaderTagHeader'):
            # one step of TagIter::<H>::next from an arbitrary valid state
            base=z3.BitVec('base',64); off=z3.BitVec('off',64); blen=z3.BitVec('blen',64)
            pre=z3.And(base&7==0, off&7==0, blen&7==0, z3.ULE(off,blen), z3.ULT(blen,BV(1<<32,64)), z3.ULT(base,BV(1<<47,64)))
            st=State(pre,mem); oid=next(eng.oid)
            st.heap[oid]=Agg('TagIter',(off,Fat(base,blen),UNIT))
            f=eng.impls[('Iterator','TagIter','next')]
            outs=list(eng.run(f,[LRef(oid,())],{'H':H},st))
            results[(H,mode)]=(outs,(base,off,blen))
            print(f'[{mode}] TagIter<{H}>::next: {len(outs)} paths, {eng.nq} feasibility queries')
            for o in outs:
                print('    ',o[0], o[1] if o[0]=='panic' else show(o[1]))
        # ref_from_ptr for BootInformationHeader
        p=z3.BitVec('p',64); st=State(z3.And(p!=0,p&7==0,z3.ULT(p,BV(1<<47,64))),mem)
        f=eng.impls[(None,'DynSizedStructure','ref_from_ptr')]
        outs=list(eng.run(f,[p],{'H':'BootInformationHeader'},st))
        results[('rfp',mode)]=(outs,(p,))
        print(f'[{mode}] ref_from_ptr<BootInformationHeader>: {len(outs)} paths')
        for o in outs: print('    ',o[0], o[1] if o[0]=='panic' else show(o[1]))
        print('   enum-validity obligations recorded:',len(eng.oblig))
    # dev vs release: category equivalence on TagIter<HeaderTagHeader>::next
    sol=z3.Solver()
    for key in (('TagHeader',),('HeaderTagHeader',),('rfp',)):
        od,_=results[key+('dev',)]; orl,_=results[key+('rel',)]
        def cat(outs,kind): return z3.Or([o[2].pc for o in outs if (o[0]=='panic')==(kind=='panic') and (kind=='panic' or True) and ((o[0]=='panic') if kind=='panic' else (o[0]=='ret' and show(o[1]).startswith(kind)))]+[z3.BoolVal(False)])
        kinds=['panic','None','Some','Ok','Err(ShorterThanHeader','Err(WrongAlignment','Err(MissingPadding','Err(InvalidReportedTotalSize']
        diff=z3.Or([cat(od,k)!=cat(orl,k) for k in kinds])
        sol.push(); sol.add(diff); r=sol.check()
        print(key[0],'dev vs release outcome category:', 'IDENTICAL for all inputs' if r==z3.unsat else 'DIFFER e.g. '+str([ (d,sol.model()[d]) for d in sol.model().decls() if d.name() in ('off','blen','p')][:3]))
        sol.pop()
    print('total %.1fs'%(time.time()-t0))
