//! C17 — string tags round-trip text and apply the NUL / UTF-8 rules within
//! the tag size.

use crate::nd;
use crate::util::*;
use crate::{cover, noreturn, vassert};
use multiboot2::{BootLoaderNameTag, CommandLineTag, ModuleTag, StringError, TagHeader};
use multiboot2_common::{DynSizedStructure, MaybeDynSized};

/// Reference UTF-8 validator (RFC 3629 table), independent of core's.
pub fn ref_utf8(b: &[u8]) -> bool {
    let n = b.len();
    let mut i = 0;
    while i < n {
        let c = b[i];
        let need = if c < 0x80 {
            0
        } else if c >= 0xC2 && c <= 0xDF {
            1
        } else if c >= 0xE0 && c <= 0xEF {
            2
        } else if c >= 0xF0 && c <= 0xF4 {
            3
        } else {
            return false;
        };
        if i + need >= n + (need == 0) as usize && need != 0 {
            return false;
        }
        if need >= 1 {
            let c1 = b[i + 1];
            let (lo, hi) = match c {
                0xE0 => (0xA0, 0xBF),
                0xED => (0x80, 0x9F),
                0xF0 => (0x90, 0xBF),
                0xF4 => (0x80, 0x8F),
                _ => (0x80, 0xBF),
            };
            if c1 < lo || c1 > hi {
                return false;
            }
        }
        if need >= 2 {
            let c2 = b[i + 2];
            if c2 < 0x80 || c2 > 0xBF {
                return false;
            }
        }
        if need >= 3 {
            let c3 = b[i + 3];
            if c3 < 0x80 || c3 > 0xBF {
                return false;
            }
        }
        i += need + 1;
    }
    true
}

#[derive(PartialEq, Eq, Clone, Copy)]
enum Spec {
    Text(usize), // length of the text
    MissingNul,
    Utf8,
}

/// The property's rule on bytes `[fixed, size)` of the tag.
fn spec_parse(b: &[u8], fixed: usize, size: usize, check_utf8: bool) -> Spec {
    let mut p = fixed;
    while p < size {
        if b[p] == 0 {
            if !check_utf8 || ref_utf8(&b[fixed..p]) {
                return Spec::Text(p - fixed);
            } else {
                return Spec::Utf8;
            }
        }
        p += 1;
    }
    Spec::MissingNul
}

fn check(r: Result<&str, StringError>, b: &[u8], base: usize, fixed: usize, size: usize, check_utf8: bool) {
    let spec = spec_parse(b, fixed, size, check_utf8);
    match r {
        Ok(s) => {
            vassert!(s.as_ptr() as usize == base + fixed, "text starts at the kind's fixed offset");
            vassert!(fixed + s.len() < size, "text and its terminator end inside the declared size");
            vassert!(spec == Spec::Text(s.len()), "text is the bytes before the first NUL inside the declared size");
        }
        Err(StringError::MissingNul(_)) => vassert!(spec == Spec::MissingNul, "MissingNul only when there is no NUL inside the declared size"),
        Err(StringError::Utf8(_)) => vassert!(spec == Spec::Utf8 || !check_utf8, "Utf8 error only for invalid UTF-8 before the first NUL"),
    }
    cover!(matches!(spec, Spec::Text(1)), "one-byte text");
    cover!(spec == Spec::MissingNul && size > fixed, "no NUL inside the size");
}

const OBJ: usize = 48;

/// `maxtext`: bound on (size - fixed).  The bytes after `size` (padding,
/// neighbour) are symbolic, so a NUL that exists only beyond the declared size
/// is a possible input.
fn parse_kind(kind: u8, maxtext: usize, check_utf8: bool) {
    let mut b = Aligned::<OBJ>::any();
    let fixed = if kind == 3 { 16 } else { 8 };
    let size: usize = nd::any();
    nd::assume(size >= fixed && size <= fixed + maxtext);
    put32(&mut b.0, 0, kind as u32);
    put32(&mut b.0, 4, size as u32);
    let g = DynSizedStructure::<TagHeader>::ref_from_slice(&b.0[..round8(size)]).unwrap();
    let base = b.addr();
    match kind {
        1 => check(g.cast::<CommandLineTag>().cmdline(), &b.0, base, fixed, size, check_utf8),
        2 => check(g.cast::<BootLoaderNameTag>().name(), &b.0, base, fixed, size, check_utf8),
        _ => check(g.cast::<ModuleTag>().cmdline(), &b.0, base, fixed, size, check_utf8),
    }
}

// @harness props=C17 tier=quick panic=forbid
// @encodes multiboot2::CommandLineTag::cmdline parse_slice_as_string CStr::from_bytes_until_nul CStr::to_str (core's memchr and UTF-8 validation executed, not stubbed)
// @bound text area (size - 8) of 0..=3 bytes, all byte values incl. NUL, multi-byte and invalid UTF-8; padding/neighbour bytes symbolic
#[cfg_attr(kani, kani::proof)]
#[cfg_attr(kani, kani::unwind(10))]
pub fn c17_parse_cmdline_3() {
    parse_kind(1, 3, true);
}

// @harness props=C17 tier=thorough panic=forbid timeout=1800
// @encodes as c17_parse_cmdline_3
// @bound text area of 0..=4 bytes
#[cfg_attr(kani, kani::proof)]
#[cfg_attr(kani, kani::unwind(10))]
pub fn c17_parse_cmdline_4() {
    parse_kind(1, 4, true);
}

// @harness props=C17,C05 tier=quick panic=forbid
// @encodes multiboot2::BootLoaderNameTag::name parse_slice_as_string (core's memchr / UTF-8 validation executed)
// @bound text area of 0..=2 bytes, padding / neighbour bytes symbolic
#[cfg_attr(kani, kani::proof)]
#[cfg_attr(kani, kani::unwind(10))]
pub fn c17_parse_name_2() {
    parse_kind(2, 2, true);
}

// @harness props=C17,C05 tier=quick panic=forbid
// @encodes multiboot2::ModuleTag::cmdline parse_slice_as_string (core's memchr / UTF-8 validation executed)
// @bound text area of 0..=2 bytes, padding / neighbour bytes symbolic
#[cfg_attr(kani, kani::proof)]
#[cfg_attr(kani, kani::unwind(10))]
pub fn c17_parse_module_2() {
    parse_kind(3, 2, true);
}

// @harness props=C17 tier=thorough panic=forbid timeout=3000
// @encodes multiboot2::BootLoaderNameTag::name ModuleTag::cmdline parse_slice_as_string
// @bound text area of 0..=3 bytes for both kinds
#[cfg_attr(kani, kani::proof)]
#[cfg_attr(kani, kani::unwind(10))]
pub fn c17_parse_name_module_3() {
    if nd::any_bool() {
        parse_kind(2, 3, true);
    } else {
        parse_kind(3, 3, true);
    }
}

// @harness props=C17 tier=thorough panic=forbid timeout=3000
// @encodes as c17_parse_cmdline_4
// @bound text area of 0..=8 bytes
#[cfg_attr(kani, kani::proof)]
#[cfg_attr(kani, kani::unwind(14))]
pub fn c17_parse_cmdline_8() {
    parse_kind(1, 8, true);
}

#[cfg(kani)]
fn stub_from_utf8(v: &[u8]) -> Result<&str, core::str::Utf8Error> {
    Ok(unsafe { core::str::from_utf8_unchecked(v) })
}

// @harness props=C17,C05 tier=quick panic=forbid kflags=-Z~stubbing
// @encodes CommandLineTag::cmdline with core::str::from_utf8 stubbed to accept (NUL / extent half only), memchr word-at-a-time path included
// @bound text area of 0..=24 bytes; UTF-8 verdict outside this harness
// @assume stub: core::str::from_utf8 always answers Ok (a Utf8Error cannot be constructed outside core)
#[cfg_attr(kani, kani::proof)]
#[cfg_attr(kani, kani::unwind(34))]
#[cfg_attr(kani, kani::stub(core::str::from_utf8, stub_from_utf8))]
pub fn c17_parse_cmdline_24_nul_half() {
    parse_kind(1, 24, false);
}

// @harness props=C17,C05 tier=quick panic=forbid kflags=-Z~stubbing
// @encodes BootLoaderNameTag::name ModuleTag::cmdline with core::str::from_utf8 stubbed to accept (NUL / extent half only)
// @bound text area of 0..=24 bytes for both kinds; UTF-8 verdict outside this harness
// @assume stub: core::str::from_utf8 always answers Ok (a Utf8Error cannot be constructed outside core)
#[cfg_attr(kani, kani::proof)]
#[cfg_attr(kani, kani::unwind(34))]
#[cfg_attr(kani, kani::stub(core::str::from_utf8, stub_from_utf8))]
pub fn c17_parse_name_module_24_nul_half() {
    if nd::any_bool() {
        parse_kind(2, 24, false);
    } else {
        parse_kind(3, 24, false);
    }
}


#[cfg(feature = "builder")]
fn text<const N: usize>() -> ([u8; N], usize) {
    // every byte 1..=0x7F, or one two-byte sequence up front: valid UTF-8 without NUL
    let mut s: [u8; N] = nd::any();
    let n: usize = nd::any();
    nd::assume(n <= N);
    let two = nd::any_bool();
    let mut i = 0;
    while i < N {
        if two && i == 0 && n >= 2 {
            nd::assume(s[0] >= 0xC2 && s[0] <= 0xDF);
        } else if two && i == 1 && n >= 2 {
            nd::assume(s[1] >= 0x80 && s[1] <= 0xBF);
        } else {
            nd::assume(s[i] != 0 && s[i] < 0x80);
        }
        i += 1;
    }
    (s, n)
}

#[cfg(feature = "builder")]
fn roundtrip(kind: u8, trailing_nul: bool, readback: bool, maxn: usize) {
    let (mut s, mut n) = text::<6>();
    if trailing_nul {
        nd::assume(n >= 1 && n <= maxn);
        // text of n-1 bytes followed by one NUL supplied by the caller
        s[n - 1] = 0;
    } else {
        nd::assume(n <= maxn);
    }
    let st = unsafe { core::str::from_utf8_unchecked(&s[..n]) };
    let textlen = if trailing_nul { n - 1 } else { n };
    let fixed = if kind == 3 { 16 } else { 8 };
    match kind {
        1 => {
            let t = CommandLineTag::new(st);
            built_check(&t.as_bytes(), t.header().size as usize, if readback { Some(t.cmdline()) } else { None }, &s, textlen, fixed);
        }
        2 => {
            let t = BootLoaderNameTag::new(st);
            built_check(&t.as_bytes(), t.header().size as usize, if readback { Some(t.name()) } else { None }, &s, textlen, fixed);
        }
        _ => {
            let t = ModuleTag::new(1, 2, st);
            built_check(&t.as_bytes(), t.header().size as usize, if readback { Some(t.cmdline()) } else { None }, &s, textlen, fixed);
        }
    }
}

#[cfg(feature = "builder")]
fn built_check(bytes: &[u8], size: usize, back: Option<Result<&str, StringError>>, s: &[u8; 6], textlen: usize, fixed: usize) {
    vassert!(size == fixed + textlen + 1, "size = fixed part + text length + one terminator");
    vassert!(bytes[size - 1] == 0, "terminating NUL stored");
    let mut nuls = 0;
    let mut same = true;
    let mut i = 0;
    // text area = bytes fixed .. size (at most 7 bytes)
    while i < size - fixed {
        if bytes[fixed + i] == 0 {
            nuls += 1;
        } else {
            same &= bytes[fixed + i] == s[i];
        }
        i += 1;
    }
    vassert!(nuls == 1, "exactly one NUL inside the declared size");
    vassert!(same, "stored text equals the supplied text");
    cover!(textlen == 0, "empty text");
    cover!(textlen >= 2, "longer text");
    let back = match back {
        Some(b) => b,
        None => return,
    };
    vassert!(back.is_ok(), "reads back without error");
    let back = match back {
        Ok(b) => b,
        Err(_) => return,
    };
    vassert!(back.len() == textlen, "read-back length");
    let mut eq = true;
    let mut i = 0;
    while i < textlen {
        eq &= back.as_bytes()[i] == s[i];
        i += 1;
    }
    vassert!(eq, "reads back exactly the supplied text");
}

// @harness props=C17,C07 tier=quick panic=forbid builder=yes
// @encodes multiboot2::CommandLineTag::new new_boxed (image: size, terminator, text bytes)
// @bound all texts of 0..=5 bytes without NUL (ASCII, optionally one leading two-byte character), with and without a caller-supplied trailing NUL
#[cfg_attr(kani, kani::proof)]
#[cfg_attr(kani, kani::unwind(9))]
#[cfg(feature = "builder")]
pub fn c17_build_cmdline() {
    roundtrip(1, nd::any_bool(), false, 5);
}

// @harness props=C17,C07 tier=quick panic=forbid builder=yes
// @encodes multiboot2::BootLoaderNameTag::new (image)
// @bound as c17_build_cmdline
#[cfg_attr(kani, kani::proof)]
#[cfg_attr(kani, kani::unwind(9))]
#[cfg(feature = "builder")]
pub fn c17_build_loader_name() {
    roundtrip(2, nd::any_bool(), false, 5);
}

// @harness props=C17,C07 tier=quick panic=forbid builder=yes
// @encodes multiboot2::ModuleTag::new (image)
// @bound as c17_build_cmdline
#[cfg_attr(kani, kani::proof)]
#[cfg_attr(kani, kani::unwind(9))]
#[cfg(feature = "builder")]
pub fn c17_build_module() {
    roundtrip(3, nd::any_bool(), false, 5);
}
