//! C01 — boot-information parsing never reads outside the loaded structure.
//!
//! Oracle: the region is ONE memory object of exactly the declared size, so any
//! read outside it is a failed pointer check of the model checker; in addition
//! every reference / slice handed out is asserted to lie inside the tag it was
//! derived from.  Controlled panics are allowed; unwinding assertions decide
//! termination within the region bound.

use crate::nd;
use crate::util::*;
use crate::{cover, noreturn, vassert};
use multiboot2::*;
use multiboot2_common::{DynSizedStructure, MaybeDynSized};

pub fn region<const N: usize>() -> Aligned<N> {
    let mut b = Aligned::<N>::any();
    put32(&mut b.0, 0, N as u32);
    b
}

pub fn load<const N: usize>(b: &Aligned<N>) -> Option<BootInformation<'_>> {
    unsafe { BootInformation::load(b.0.as_ptr().cast::<BootInformationHeader>()) }.ok()
}

/// (address, declared size) of the tag a typed view was derived from, and the
/// check that it lies inside the region.
fn tag_extent<T: MaybeDynSized<Header = TagHeader> + ?Sized, const N: usize>(t: &T, b: &Aligned<N>) -> (usize, usize) {
    let a = t as *const T as *const u8 as usize;
    let size = t.header().size as usize;
    vassert!(inside(a, round8(size), b.addr(), N), "the tag handed out lies inside the loaded region");
    vassert!(core::mem::size_of_val(t) == round8(size), "typed view is as large as the tag");
    (a, size)
}

fn touch(s: &[u8]) {
    if let (Some(x), Some(y)) = (s.first(), s.last()) {
        let _ = *x ^ *y;
    }
}

fn walk<const N: usize>() {
    let b = region::<N>();
    let bi = match load(&b) {
        Some(bi) => bi,
        None => return,
    };
    let mut n = 0;
    for t in bi.tags() {
        let a = t as *const _ as *const u8 as usize;
        let p = t.payload();
        vassert!(inside(a, 8 + p.len(), b.addr() + 8, N - 8), "tag lies inside the region's payload");
        vassert!(p.as_ptr() as usize == a + 8, "payload follows header");
        touch(p);
        let _ = t.header().typ;
        n += 1;
    }
    cover!(n == 3, "three tags walked");
}

// @harness props=C01,C08 tier=quick panic=allow
// @encodes BootInformation::load BootInformation::tags TagIter::next DynSizedStructure::header payload
// @bound fully symbolic 48-byte region (every tag type/size/order that fits); unwinding assertions on
#[cfg_attr(kani, kani::proof)]
#[cfg_attr(kani, kani::unwind(8))]
pub fn c01_walk_48() {
    walk::<48>();
}

// @harness props=C01 tier=thorough panic=allow
// @encodes as c01_walk_48
// @bound fully symbolic 64-byte region
#[cfg_attr(kani, kani::proof)]
#[cfg_attr(kani, kani::unwind(10))]
pub fn c01_walk_64() {
    walk::<64>();
}

// @harness props=C01 tier=quick panic=allow
// @encodes BootInformation::apm_tag get_tag TagIter::next DynSizedStructure::cast::<T> and every accessor of the returned tag
// @bound fully symbolic 48-byte region (every tag type/size/order that fits)
#[cfg_attr(kani, kani::proof)]
#[cfg_attr(kani, kani::unwind(8))]
pub fn c01_get_apm_48() {
    let b = region::<48>();
    let bi = match load(&b) {
        Some(bi) => bi,
        None => return,
    };
    if let Some(t) = bi.apm_tag() {
        tag_extent(t, &b);
        let _ = (t.version(), t.cseg(), t.offset(), t.cset_16(), t.dseg(), t.flags(), t.cseg_len(), t.cseg_16_len(), t.dseg_len());
        cover!(true, "tag found");
    }
}

// @harness props=C01,C08 tier=quick panic=allow
// @encodes BootInformation::basic_memory_info_tag get_tag TagIter::next DynSizedStructure::cast::<T> and every accessor of the returned tag
// @bound fully symbolic 48-byte region (every tag type/size/order that fits)
#[cfg_attr(kani, kani::proof)]
#[cfg_attr(kani, kani::unwind(8))]
pub fn c01_get_meminfo_48() {
    let b = region::<48>();
    let bi = match load(&b) {
        Some(bi) => bi,
        None => return,
    };
    if let Some(t) = bi.basic_memory_info_tag() {
        tag_extent(t, &b);
        let _ = (t.memory_lower(), t.memory_upper());
        cover!(true, "tag found");
    }
}

// @harness props=C01 tier=quick panic=allow
// @encodes BootInformation::bootdev_tag get_tag TagIter::next DynSizedStructure::cast::<T> and every accessor of the returned tag
// @bound fully symbolic 48-byte region (every tag type/size/order that fits)
#[cfg_attr(kani, kani::proof)]
#[cfg_attr(kani, kani::unwind(8))]
pub fn c01_get_bootdev_48() {
    let b = region::<48>();
    let bi = match load(&b) {
        Some(bi) => bi,
        None => return,
    };
    if let Some(t) = bi.bootdev_tag() {
        tag_extent(t, &b);
        let _ = (t.biosdev(), t.slice(), t.part());
        cover!(true, "tag found");
    }
}

// @harness props=C01 tier=quick panic=allow
// @encodes BootInformation::efi_bs_not_exited_tag get_tag TagIter::next DynSizedStructure::cast::<T> and every accessor of the returned tag
// @bound fully symbolic 48-byte region (every tag type/size/order that fits)
#[cfg_attr(kani, kani::proof)]
#[cfg_attr(kani, kani::unwind(8))]
pub fn c01_get_efi_bs_48() {
    let b = region::<48>();
    let bi = match load(&b) {
        Some(bi) => bi,
        None => return,
    };
    if let Some(t) = bi.efi_bs_not_exited_tag() {
        tag_extent(t, &b);
        let _ = ();
        cover!(true, "tag found");
    }
}

// @harness props=C01 tier=quick panic=allow
// @encodes BootInformation::efi_sdt32_tag get_tag TagIter::next DynSizedStructure::cast::<T> and every accessor of the returned tag
// @bound fully symbolic 48-byte region (every tag type/size/order that fits)
#[cfg_attr(kani, kani::proof)]
#[cfg_attr(kani, kani::unwind(8))]
pub fn c01_get_efi_sdt32_48() {
    let b = region::<48>();
    let bi = match load(&b) {
        Some(bi) => bi,
        None => return,
    };
    if let Some(t) = bi.efi_sdt32_tag() {
        tag_extent(t, &b);
        let _ = t.sdt_address();
        cover!(true, "tag found");
    }
}

// @harness props=C01 tier=quick panic=allow
// @encodes BootInformation::efi_sdt64_tag get_tag TagIter::next DynSizedStructure::cast::<T> and every accessor of the returned tag
// @bound fully symbolic 48-byte region (every tag type/size/order that fits)
#[cfg_attr(kani, kani::proof)]
#[cfg_attr(kani, kani::unwind(8))]
pub fn c01_get_efi_sdt64_48() {
    let b = region::<48>();
    let bi = match load(&b) {
        Some(bi) => bi,
        None => return,
    };
    if let Some(t) = bi.efi_sdt64_tag() {
        tag_extent(t, &b);
        let _ = t.sdt_address();
        cover!(true, "tag found");
    }
}

// @harness props=C01 tier=quick panic=allow
// @encodes BootInformation::efi_ih32_tag get_tag TagIter::next DynSizedStructure::cast::<T> and every accessor of the returned tag
// @bound fully symbolic 48-byte region (every tag type/size/order that fits)
#[cfg_attr(kani, kani::proof)]
#[cfg_attr(kani, kani::unwind(8))]
pub fn c01_get_efi_ih32_48() {
    let b = region::<48>();
    let bi = match load(&b) {
        Some(bi) => bi,
        None => return,
    };
    if let Some(t) = bi.efi_ih32_tag() {
        tag_extent(t, &b);
        let _ = t.image_handle();
        cover!(true, "tag found");
    }
}

// @harness props=C01 tier=quick panic=allow
// @encodes BootInformation::efi_ih64_tag get_tag TagIter::next DynSizedStructure::cast::<T> and every accessor of the returned tag
// @bound fully symbolic 48-byte region (every tag type/size/order that fits)
#[cfg_attr(kani, kani::proof)]
#[cfg_attr(kani, kani::unwind(8))]
pub fn c01_get_efi_ih64_48() {
    let b = region::<48>();
    let bi = match load(&b) {
        Some(bi) => bi,
        None => return,
    };
    if let Some(t) = bi.efi_ih64_tag() {
        tag_extent(t, &b);
        let _ = t.image_handle();
        cover!(true, "tag found");
    }
}

// @harness props=C01 tier=quick panic=allow
// @encodes BootInformation::load_base_addr_tag get_tag TagIter::next DynSizedStructure::cast::<T> and every accessor of the returned tag
// @bound fully symbolic 48-byte region (every tag type/size/order that fits)
#[cfg_attr(kani, kani::proof)]
#[cfg_attr(kani, kani::unwind(8))]
pub fn c01_get_load_base_48() {
    let b = region::<48>();
    let bi = match load(&b) {
        Some(bi) => bi,
        None => return,
    };
    if let Some(t) = bi.load_base_addr_tag() {
        tag_extent(t, &b);
        let _ = t.load_base_addr();
        cover!(true, "tag found");
    }
}

// @harness props=C01 tier=quick panic=allow
// @encodes BootInformation::network_tag get_tag TagIter::next DynSizedStructure::cast::<T> and every accessor of the returned tag
// @bound fully symbolic 48-byte region (every tag type/size/order that fits)
#[cfg_attr(kani, kani::proof)]
#[cfg_attr(kani, kani::unwind(8))]
pub fn c01_get_network_48() {
    let b = region::<48>();
    let bi = match load(&b) {
        Some(bi) => bi,
        None => return,
    };
    if let Some(t) = bi.network_tag() {
        tag_extent(t, &b);
        let _ = ();
        cover!(true, "tag found");
    }
}

// @harness props=C01 tier=quick panic=allow
// @encodes BootInformation::rsdp_v1_tag get_tag TagIter::next DynSizedStructure::cast::<T> and every accessor of the returned tag
// @bound fully symbolic 48-byte region (every tag type/size/order that fits)
#[cfg_attr(kani, kani::proof)]
#[cfg_attr(kani, kani::unwind(8))]
pub fn c01_get_rsdp_v1_48() {
    let b = region::<48>();
    let bi = match load(&b) {
        Some(bi) => bi,
        None => return,
    };
    if let Some(t) = bi.rsdp_v1_tag() {
        tag_extent(t, &b);
        let _ = (t.revision(), t.rsdt_address());
        cover!(true, "tag found");
    }
}

fn rsdp_v1_exact(b: &Aligned<32>) -> &RsdpV1Tag {
    DynSizedStructure::<TagHeader>::ref_from_slice(&b.0[..]).unwrap().cast::<RsdpV1Tag>()
}
fn rsdp_v2_exact(b: &Aligned<48>) -> &RsdpV2Tag {
    DynSizedStructure::<TagHeader>::ref_from_slice(&b.0[..]).unwrap().cast::<RsdpV2Tag>()
}

// @harness props=C01,C08 tier=quick panic=allow
// @encodes RsdpV2Tag::checksum_is_valid cast::<RsdpV2Tag>
// @bound RSDP v2 tag (declared size 44) as an exact 48-byte memory object, stored RSDP length symbolic over all 2^32 values; unwind 50 > object size
#[cfg_attr(kani, kani::proof)]
#[cfg_attr(kani, kani::unwind(50))]
pub fn c01_rsdp_v2_checksum() {
    let mut b = Aligned::<48>::any();
    put32(&mut b.0, 0, 15);
    put32(&mut b.0, 4, 44);
    let t = rsdp_v2_exact(&b);
    cover!(le32(&b.0, 28) == 36, "specified RSDP length");
    cover!(le32(&b.0, 28) > 40, "stored length beyond the tag");
    let _ = t.checksum_is_valid();
}

// @harness props=C01 tier=quick panic=allow
// @encodes RsdpV1Tag::checksum_is_valid cast::<RsdpV1Tag>
// @bound RSDP v1 tag (declared size 28) as an exact 32-byte memory object, contents symbolic
#[cfg_attr(kani, kani::proof)]
#[cfg_attr(kani, kani::unwind(30))]
pub fn c01_rsdp_v1_checksum() {
    let mut b = Aligned::<32>::any();
    put32(&mut b.0, 0, 14);
    put32(&mut b.0, 4, 28);
    let t = rsdp_v1_exact(&b);
    let _ = t.checksum_is_valid();
}

// @harness props=C01 tier=quick panic=allow
// @encodes RsdpV1Tag::{signature,oem_id,revision,rsdt_address} RsdpV2Tag::{signature,oem_id,revision,xsdt_address,ext_checksum}
// @bound exact-size tag objects, contents symbolic (8- and 6-byte strings through core's UTF-8 validation)
#[cfg_attr(kani, kani::proof)]
#[cfg_attr(kani, kani::unwind(10))]
pub fn c01_rsdp_strings() {
    if nd::any_bool() {
        let mut b = Aligned::<32>::any();
        put32(&mut b.0, 0, 14);
        put32(&mut b.0, 4, 28);
        let t = rsdp_v1_exact(&b);
        let _ = (t.revision(), t.rsdt_address());
        if let Ok(s) = t.signature() {
            vassert!(s.as_ptr() as usize == b.addr() + 8 && s.len() == 8, "signature is bytes 8..16 of the tag");
            cover!(true, "v1 signature is utf-8");
        }
        if let Ok(s) = t.oem_id() {
            vassert!(s.as_ptr() as usize == b.addr() + 17 && s.len() == 6, "oem id is bytes 17..23 of the tag");
        }
    } else {
        let mut b = Aligned::<48>::any();
        put32(&mut b.0, 0, 15);
        put32(&mut b.0, 4, 44);
        let t = rsdp_v2_exact(&b);
        let _ = (t.revision(), t.xsdt_address(), t.ext_checksum());
        if let Ok(s) = t.signature() {
            vassert!(s.as_ptr() as usize == b.addr() + 8 && s.len() == 8, "signature is bytes 8..16 of the tag");
        }
        if let Ok(s) = t.oem_id() {
            vassert!(s.as_ptr() as usize == b.addr() + 17 && s.len() == 6, "oem id is bytes 17..23 of the tag");
            cover!(true, "v2 oem id is utf-8");
        }
    }
}

fn mmap<const N: usize>() {
    let b = region::<N>();
    let bi = match load(&b) {
        Some(bi) => bi,
        None => return,
    };
    if let Some(t) = bi.memory_map_tag() {
        let (a, size) = tag_extent(t, &b);
        let _ = (t.entry_size(), t.entry_version());
        let areas = t.memory_areas();
        vassert!(inside(areas.as_ptr() as usize, areas.len() * 24, a, size), "memory areas lie inside the tag");
        for m in areas {
            let _ = (m.start_address(), m.size(), m.typ());
        }
        cover!(areas.len() == 1, "one area");
    }
}

// @harness props=C01,C08 tier=quick panic=allow
// @encodes BootInformation::memory_map_tag MemoryMapTag::{memory_areas,entry_size,entry_version,dst_len} MemoryArea accessors
// @bound fully symbolic 64-byte region (up to one 24-byte area next to other tags)
#[cfg_attr(kani, kani::proof)]
#[cfg_attr(kani, kani::unwind(10))]
pub fn c01_mmap_64() {
    mmap::<64>();
}

fn efi_mmap<const N: usize>() {
    let b = region::<N>();
    let bi = match load(&b) {
        Some(bi) => bi,
        None => return,
    };
    if let Some(t) = bi.efi_memory_map_tag() {
        let (a, size) = tag_extent(t, &b);
        let mut n = 0;
        for d in t.memory_areas() {
            let p = d as *const EFIMemoryDesc as usize;
            vassert!(inside(p, 40, a, size), "descriptor inside the tag");
            let _ = (d.ty, d.phys_start, d.virt_start, d.page_count, d.att);
            n += 1;
        }
        cover!(n == 1, "one descriptor");
    }
}

// @harness props=C01 tier=quick panic=allow
// @encodes BootInformation::efi_memory_map_tag EFIMemoryMapTag::memory_areas EFIMemoryAreaIter::{new,next}
// @bound fully symbolic 80-byte region (room for a 16+40 byte EFI map tag); all descriptor sizes / versions
#[cfg_attr(kani, kani::proof)]
#[cfg_attr(kani, kani::unwind(12))]
pub fn c01_efi_mmap_80() {
    efi_mmap::<80>();
}

fn smbios_modules<const N: usize>() {
    let b = region::<N>();
    let bi = match load(&b) {
        Some(bi) => bi,
        None => return,
    };
    if let Some(t) = bi.smbios_tag() {
        let (a, size) = tag_extent(t, &b);
        let _ = (t.major(), t.minor());
        let x = t.tables();
        vassert!(inside(x.as_ptr() as usize, x.len(), a, size), "smbios tables inside the tag");
        touch(x);
        cover!(x.len() == 3, "three table bytes");
    }
}

// @harness props=C01 tier=quick panic=allow
// @encodes BootInformation::smbios_tag SmbiosTag::{major,minor,tables,dst_len}
// @bound fully symbolic 48-byte region
#[cfg_attr(kani, kani::proof)]
#[cfg_attr(kani, kani::unwind(8))]
pub fn c01_smbios_48() {
    smbios_modules::<48>();
}

fn framebuffer<const N: usize>() {
    let b = region::<N>();
    let bi = match load(&b) {
        Some(bi) => bi,
        None => return,
    };
    if let Some(Ok(t)) = bi.framebuffer_tag() {
        let (a, size) = tag_extent(t, &b);
        let _ = (t.address(), t.pitch(), t.width(), t.height(), t.bpp());
        match t.buffer_type() {
            Ok(FramebufferType::Indexed { palette }) => {
                vassert!(inside(palette.as_ptr() as usize, palette.len() * 3, a, size), "palette lies inside the tag");
                if let (Some(x), Some(y)) = (palette.first(), palette.last()) {
                    let _ = x.red ^ y.blue;
                }
                cover!(palette.len() == 2, "two palette entries");
            }
            Ok(FramebufferType::RGB { red, green, blue }) => {
                let _ = (red.position, green.size, blue.position);
                cover!(true, "rgb");
            }
            _ => {}
        }
    }
}

// @harness props=C01,C08,C05 tier=quick panic=allow
// @encodes BootInformation::framebuffer_tag FramebufferTag::{buffer_type,address,pitch,width,height,bpp,dst_len} framebuffer::Reader
// @bound fully symbolic 64-byte region (framebuffer tag with up to 16 colour-info bytes); stored colour count symbolic over all 2^16 values
#[cfg_attr(kani, kani::proof)]
#[cfg_attr(kani, kani::unwind(10))]
pub fn c01_framebuffer_64() {
    framebuffer::<64>();
}

fn vbe() {
    const N: usize = 8 + 784 + 8;
    let mut b = region::<N>();
    // the first tag is a VBE tag (type 7) of symbolic size >= 700, so that the walk stays short;
    // everything else, including the rest of the region, is symbolic
    put32(&mut b.0, 8, 7);
    nd::assume(le32(&b.0, 12) >= 700);
    let bi = match load(&b) {
        Some(bi) => bi,
        None => return,
    };
    if let Some(t) = bi.vbe_info_tag() {
        let (a, size) = tag_extent(t, &b);
        let _ = (t.mode(), t.interface_segment(), t.interface_offset(), t.interface_length());
        let c = t.control_info();
        let m = t.mode_info();
        let _ = (c.signature, c.version, c.oem_product_revision_ptr);
        let _ = (m.pitch, m.offscreen_memory_size, m.bpp);
        cover!(true, "vbe found");
    }
}

// @harness props=C01,C15 tier=thorough panic=allow timeout=1800
// @encodes BootInformation::vbe_info_tag VBEInfoTag::{mode,interface_*,control_info,mode_info} cast::<VBEInfoTag>
// @bound 800-byte region (header + 784 + end tag): first tag of type 7 with symbolic size >= 700, all other bytes symbolic
#[cfg_attr(kani, kani::proof)]
#[cfg_attr(kani, kani::unwind(16))]
pub fn c01_vbe_800() {
    vbe();
}
