//! C20 — type-identifier conversions for all 2^32 values (full width: one or
//! two symbolic u32, no loops).

use crate::nd;
use crate::util::*;
use crate::{cover, vassert};
use multiboot2::{MemoryAreaType, MemoryAreaTypeId, TagType, TagTypeId};

fn spec_tagtype(v: u32) -> TagType {
    // Independent table: Multiboot2 spec 3.6 (boot information tag numbers).
    const NAMED: [TagType; 22] = [
        TagType::End,
        TagType::Cmdline,
        TagType::BootLoaderName,
        TagType::Module,
        TagType::BasicMeminfo,
        TagType::Bootdev,
        TagType::Mmap,
        TagType::Vbe,
        TagType::Framebuffer,
        TagType::ElfSections,
        TagType::Apm,
        TagType::Efi32,
        TagType::Efi64,
        TagType::Smbios,
        TagType::AcpiV1,
        TagType::AcpiV2,
        TagType::Network,
        TagType::EfiMmap,
        TagType::EfiBs,
        TagType::Efi32Ih,
        TagType::Efi64Ih,
        TagType::LoadBaseAddr,
    ];
    if v < 22 {
        NAMED[v as usize]
    } else {
        TagType::Custom(v)
    }
}

// @harness props=C20 tier=quick panic=forbid
// @encodes multiboot2::TagType::from(u32) u32::from(TagType) TagType::val TagTypeId::from(u32) TagTypeId::new u32::from(TagTypeId) TagType::from(TagTypeId) TagTypeId::from(TagType)
// @bound all 2^32 values of one symbolic u32; no loops
#[cfg_attr(kani, kani::proof)]
pub fn c20_tagtype_roundtrip() {
    let v: u32 = nd::any();
    let t = TagType::from(v);
    // derived PartialEq on TagType: structural, so this also pins the variant
    vassert!(t == spec_tagtype(v), "u32 -> TagType maps to the specified variant");
    vassert!(u32::from(t) == v, "TagType -> u32 round trip");
    vassert!(t.val() == v, "TagType::val");
    let id = TagTypeId::from(v);
    let id2 = TagTypeId::new(v);
    vassert!(u32::from(id) == v, "TagTypeId round trip");
    vassert!(u32::from(id2) == v, "TagTypeId::new round trip");
    vassert!(TagType::from(id) == t, "u32->id->TagType commutes with u32->TagType");
    vassert!(u32::from(TagTypeId::from(t)) == v, "TagType->id->u32 commutes");
    cover!(v == 21, "last named");
    cover!(v == 22, "first custom");
    cover!(v == u32::MAX, "max");
    match t {
        TagType::Custom(c) => vassert!(c == v && v >= 22, "Custom carries the value and only for v>=22"),
        _ => vassert!(v <= 21, "named variant only for 0..=21"),
    }
}

// @harness props=C20 tier=quick panic=forbid
// @encodes multiboot2::tag_type::partial_eq_impls (all six PartialEq directions)
// @bound all pairs of 32-bit values (two symbolic u32); no loops
#[cfg_attr(kani, kani::proof)]
pub fn c20_tagtype_eq() {
    let a: u32 = nd::any();
    let b: u32 = nd::any();
    // symbolic types as conversion produces them, or user-constructed `Custom(n)` for ANY n
    // (a `Custom` holding a specified number still has that number as its value)
    let canon = nd::any_bool();
    let ta = if canon { TagType::from(a) } else { TagType::Custom(a) };
    let tb = if canon { TagType::from(b) } else { TagType::Custom(b) };
    vassert!(u32::from(ta) == a && ta.val() == a && u32::from(TagTypeId::from(ta)) == a, "a symbolic type's number is the value it was made from");
    let ia = TagTypeId::from(a);
    let ib = TagTypeId::from(b);
    let num = a == b;
    let mut ok = true;
    if canon {
        ok &= (ta == tb) == num;
    }
    ok &= (ia == ib) == num;
    ok &= (ta == ib) == num;
    ok &= (ia == tb) == num;
    ok &= (ia == b) == num;
    ok &= (a == ib) == num;
    ok &= (ta == b) == num;
    ok &= (a == tb) == num;
    cover!(num, "equal pair");
    cover!(!num && a < 22 && b >= 22, "named vs custom");
    cover!(!canon && num && a < 22, "user-made Custom holding a specified number");
    vassert!(ok, "equality between raw numbers, ids and symbolic types is numeric equality");
}

// @harness props=C20 tier=quick panic=forbid
// @encodes multiboot2::MemoryAreaType::from(MemoryAreaTypeId) MemoryAreaTypeId::from(MemoryAreaType) MemoryAreaTypeId::from(u32) u32::from(MemoryAreaTypeId) PartialEq<MemoryAreaType> for MemoryAreaTypeId (both directions)
// @bound all pairs of 32-bit values; no loops
#[cfg_attr(kani, kani::proof)]
pub fn c20_memarea_type() {
    let v: u32 = nd::any();
    let w: u32 = nd::any();
    let id = MemoryAreaTypeId::from(v);
    vassert!(u32::from(id) == v, "id round trip");
    let t = MemoryAreaType::from(id);
    let spec = match v {
        1 => MemoryAreaType::Available,
        2 => MemoryAreaType::Reserved,
        3 => MemoryAreaType::AcpiAvailable,
        4 => MemoryAreaType::ReservedHibernate,
        5 => MemoryAreaType::Defective,
        x => MemoryAreaType::Custom(x),
    };
    vassert!(t == spec, "specified numbers map to named variants, others to Custom");
    vassert!(u32::from(MemoryAreaTypeId::from(t)) == v, "type -> id -> u32 round trip");
    let idw = MemoryAreaTypeId::from(w);
    let tw = MemoryAreaType::from(idw);
    let num = v == w;
    let mut ok = true;
    ok &= (id == idw) == num;
    ok &= (t == tw) == num;
    ok &= (id == tw) == num;
    ok &= (t == idw) == num;
    cover!(v == 0, "zero is custom");
    cover!(v == 5, "defective");
    cover!(v == 6, "first custom above");
    vassert!(ok, "equality agrees with numeric equality");
}

// @harness props=C20 tier=quick panic=forbid
// @encodes multiboot2::MAGIC multiboot2_header::MAGIC
// @bound constants
#[cfg_attr(kani, kani::proof)]
pub fn c20_magics() {
    vassert!(multiboot2::MAGIC == 0x36D7_6289, "boot-loader handoff magic");
    vassert!(multiboot2_header::MAGIC == 0xE852_50D6, "header magic");
}

// @harness props=C20,C04,C08 tier=quick panic=forbid
// @encodes multiboot2::FramebufferTag::buffer_type (type byte classification = FramebufferTypeId::try_from) BootInformation::framebuffer_tag
// @bound all 256 type bytes; one framebuffer tag of declared size 40 (8 colour-info bytes) in a 56-byte region; dev-profile semantics of the enum-typed load
#[cfg_attr(kani, kani::proof)]
#[cfg_attr(kani, kani::unwind(8))]
pub fn c20_framebuffer_type_byte() {
    const N: usize = 8 + 40 + 8;
    let mut b = Aligned::<N>::any();
    put32(&mut b.0, 0, N as u32);
    put32(&mut b.0, 8, 8);
    put32(&mut b.0, 12, 40);
    put32(&mut b.0, 48, 0);
    put32(&mut b.0, 52, 8);
    let ty = b.0[8 + 29];
    // keep the palette count small: its extent is C01's business
    nd::assume(le16(&b.0, 8 + 32) <= 1);
    let bi = unsafe { multiboot2::BootInformation::load(b.0.as_ptr().cast()) };
    let bi = match bi {
        Ok(bi) => bi,
        Err(_) => {
            vassert!(false, "well-formed region must load");
            return;
        }
    };
    let r = bi.framebuffer_tag();
    vassert!(r.is_some(), "framebuffer tag present");
    match r.unwrap() {
        Ok(tag) => {
            vassert!(ty <= 2, "known type only for bytes 0,1,2");
            let bt = tag.buffer_type();
            match bt {
                Ok(multiboot2::FramebufferType::Indexed { .. }) => vassert!(ty == 0, "indexed = 0"),
                Ok(multiboot2::FramebufferType::RGB { .. }) => vassert!(ty == 1, "rgb = 1"),
                Ok(multiboot2::FramebufferType::Text) => vassert!(ty == 2, "text = 2"),
                Err(_) => vassert!(false, "getter said Ok, accessor says Err"),
            }
            cover!(ty == 0, "indexed");
            cover!(ty == 1, "rgb");
            cover!(ty == 2, "text");
        }
        Err(e) => {
            vassert!(ty > 2, "error only for unknown bytes");
            // the error's Display carries the byte; compare through Debug-free path:
            let mut w = Tail4::new();
            use core::fmt::Write;
            let _ = write!(w, "{}", e);
            cover!(ty == 3, "first unknown");
            cover!(ty == 255, "last unknown");
            vassert!(w.ends_with_decimal(ty), "error carries the byte");
        }
    }
}

/// Loop-free `fmt::Write` sink that remembers only the last four bytes written.
pub struct Tail4 {
    pub tail: [u8; 4],
}
impl Tail4 {
    pub fn new() -> Self {
        Self { tail: [0; 4] }
    }
    fn push(&mut self, c: u8) {
        self.tail = [self.tail[1], self.tail[2], self.tail[3], c];
    }
    /// The text written so far ends in `" <v>"` (decimal, no leading zeros).
    pub fn ends_with_decimal(&self, v: u8) -> bool {
        let t = self.tail;
        if v >= 100 {
            t[0] == b' ' && t[1] == b'0' + v / 100 && t[2] == b'0' + (v / 10) % 10 && t[3] == b'0' + v % 10
        } else if v >= 10 {
            t[1] == b' ' && t[2] == b'0' + v / 10 && t[3] == b'0' + v % 10
        } else {
            t[2] == b' ' && t[3] == b'0' + v
        }
    }
}
impl core::fmt::Write for Tail4 {
    fn write_str(&mut self, s: &str) -> core::fmt::Result {
        let b = s.as_bytes();
        let n = b.len();
        if n >= 4 {
            self.push(b[n - 4]);
        }
        if n >= 3 {
            self.push(b[n - 3]);
        }
        if n >= 2 {
            self.push(b[n - 2]);
        }
        if n >= 1 {
            self.push(b[n - 1]);
        }
        Ok(())
    }
}
