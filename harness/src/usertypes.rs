//! User-defined custom tag types for C15 (sized and dynamically sized), i.e.
//! *user code* in the sense of the property: panics raised here (the
//! `dst_len` size assertions) count as controlled panics of the cast, not as
//! harness assertions — the runner keys on this file name.

use multiboot2::{TagHeader, TagType, TagTypeId};
use multiboot2_common::{MaybeDynSized, Tag};

/// Sized custom tag with K extra words (truthful: BASE_SIZE = size_of::<Self>()).
#[repr(C)]
pub struct Sized_<const K: usize> {
    pub header: TagHeader,
    pub extra: [u32; K],
}
impl<const K: usize> MaybeDynSized for Sized_<K> {
    type Header = TagHeader;
    const BASE_SIZE: usize = core::mem::size_of::<Self>();
    fn dst_len(_: &TagHeader) {}
}
impl<const K: usize> Tag for Sized_<K> {
    type IDType = TagType;
    const ID: TagType = TagType::Custom(0x1000);
}

macro_rules! dst_type {
    ($name:ident, $elem:ty, $esz:expr, [$($fixed:ident : $fty:ty),*], $base:expr) => {
        #[derive(ptr_meta::Pointee)]
        #[repr(C)]
        pub struct $name {
            pub header: TagHeader,
            $(pub $fixed: $fty,)*
            pub tail: [$elem],
        }
        impl MaybeDynSized for $name {
            type Header = TagHeader;
            const BASE_SIZE: usize = $base;
            fn dst_len(header: &TagHeader) -> usize {
                assert!(header.size as usize >= Self::BASE_SIZE);
                (header.size as usize - Self::BASE_SIZE) / $esz
            }
        }
        impl Tag for $name {
            type IDType = TagType;
            const ID: TagType = TagType::Custom(0x1001);
        }
    };
}
#[derive(Clone, Copy)]
#[repr(C)]
pub struct E3(pub [u8; 3]);
#[derive(Clone, Copy)]
#[repr(C)]
pub struct E24(pub u64, pub u64, pub u64);

dst_type!(D8e1, u8, 1, [], 8);
dst_type!(D8e2, u16, 2, [], 8);
dst_type!(D8e3, E3, 3, [], 8);
dst_type!(D8e4, u32, 4, [], 8);
dst_type!(D8e8, u64, 8, [], 8);
dst_type!(D16e1, u8, 1, [a: u64], 16);
dst_type!(D16e3, E3, 3, [a: u32, b: u32], 16);
dst_type!(D16e4, u32, 4, [a: u64], 16);
dst_type!(D16e24, E24, 24, [a: u64], 16);
dst_type!(D24e2, u16, 2, [a: u64, b: u64], 24);
dst_type!(D24e8, u64, 8, [a: u64, b: u64], 24);

/// The raw-field, 4-aligned form the repository's own test uses
/// (`get_custom_dst_tag_from_mbi`), fixed parts 8, 12, 20.
macro_rules! raw_type {
    ($name:ident, $elem:ty, $esz:expr, [$($fixed:ident),*], $base:expr) => {
        #[derive(ptr_meta::Pointee)]
        #[repr(C)]
        pub struct $name {
            pub tag: TagTypeId,
            pub size: u32,
            $(pub $fixed: u32,)*
            pub tail: [$elem],
        }
        impl MaybeDynSized for $name {
            type Header = TagHeader;
            const BASE_SIZE: usize = $base;
            fn dst_len(header: &TagHeader) -> usize {
                assert!(header.size as usize >= Self::BASE_SIZE);
                (header.size as usize - Self::BASE_SIZE) / $esz
            }
        }
        impl Tag for $name {
            type IDType = TagType;
            const ID: TagType = TagType::Custom(0x1002);
        }
    };
}
raw_type!(R8e1, u8, 1, [], 8);
raw_type!(R12e1, u8, 1, [a], 12);
raw_type!(R12e4, u32, 4, [a], 12);
raw_type!(R20e2, u16, 2, [a, b, c], 20);

