//! C08 — results do not depend on build profile or optional features.
//!
//! Profile half: Kani decides the dev-profile semantics.  The only MIR-level
//! difference of the release profile is the absence of the arithmetic overflow
//! checks, so for every C08-tagged harness the runner takes each *reachable*
//! overflow check (the solver supplies an input that reaches it) and replays
//! that input against the natively compiled release build: if the release
//! build returns where the dev build panics, the outcomes differ.  Where no
//! overflow check is reachable the two profiles execute the same operations.
//! (Typed loads of enum fields — the other source of profile-dependent
//! behaviour — are decided by the MIR engine, target `enum_loads`.)
//!
//! Feature half: the harnesses tagged `features=both` are decided with and
//! without the `builder`/`alloc` features against the same oracles.

use crate::nd;
use crate::util::*;
use crate::{cover, noreturn, vassert};
use multiboot2::*;
use multiboot2_common::DynSizedStructure;

// @harness props=C08 tier=quick panic=allow features=both
// @encodes multiboot2::ModuleTag::module_size start_address end_address (all 2^64 start/end pairs)
// @bound module tag with symbolic start / end words
#[cfg_attr(kani, kani::proof)]
pub fn c08_module_size() {
    let mut b = Aligned::<24>::any();
    put32(&mut b.0, 0, 3);
    put32(&mut b.0, 4, 17);
    let t = DynSizedStructure::<TagHeader>::ref_from_slice(&b.0[..]).unwrap().cast::<ModuleTag>();
    let (s, e) = (le32(&b.0, 8), le32(&b.0, 12));
    let sz = t.module_size();
    cover!(e < s, "end below start");
    vassert!(sz == e.wrapping_sub(s), "module size is end - start");
}

// @harness props=C08 tier=quick panic=allow features=both
// @encodes multiboot2::MemoryArea::end_address start_address size (all 2^128 base/length pairs)
// @bound memory map tag with one symbolic entry
#[cfg_attr(kani, kani::proof)]
pub fn c08_memory_area_end() {
    let mut b = Aligned::<40>::any();
    put32(&mut b.0, 0, 6);
    put32(&mut b.0, 4, 40);
    put32(&mut b.0, 8, 24);
    let t = DynSizedStructure::<TagHeader>::ref_from_slice(&b.0[..]).unwrap().cast::<MemoryMapTag>();
    let a = &t.memory_areas()[0];
    let (base, len) = (le64(&b.0, 16), le64(&b.0, 24));
    let end = a.end_address();
    cover!(base.checked_add(len).is_none(), "base + length exceeds u64");
    vassert!(end == base.wrapping_add(len), "end address is base + length");
}

// @harness props=C08 tier=quick panic=allow
// @encodes multiboot2::ElfSection::end_address start_address size (both entry layouts)
// @bound one section entry with symbolic address / size
#[cfg_attr(kani, kani::proof)]
#[cfg_attr(kani, kani::unwind(3))]
#[cfg(multiboot2_verif)]
pub fn c08_elf_section_end() {
    let mut b = Aligned::<64>::any();
    put32(&mut b.0, 4, 1);
    let esz = if nd::any_bool() { 40u32 } else { 64 };
    let base = b.0.as_ptr();
    let mut it = unsafe { ElfSectionIter::__verif_from_parts(base, 1, esz, base) };
    let s = it.next().unwrap();
    let (addr, size) = (s.start_address(), s.size());
    let end = s.end_address();
    cover!(esz == 64 && addr.checked_add(size).is_none(), "address + size exceeds u64");
    vassert!(end == addr.wrapping_add(size), "end address is address + size");
}

// @harness props=C08 tier=quick panic=allow features=both
// @encodes multiboot2::BootInformation::{start_address,end_address,total_size}
// @bound loaded 32-byte region
#[cfg_attr(kani, kani::proof)]
pub fn c08_bootinfo_extent() {
    let mut b = Aligned::<32>::any();
    put32(&mut b.0, 0, 32);
    if let Ok(bi) = unsafe { BootInformation::load(b.0.as_ptr().cast::<BootInformationHeader>()) } {
        vassert!(bi.end_address() == bi.start_address() + 32 && bi.total_size() == 32, "extent of the loaded region");
        cover!(true, "loaded");
    }
}
