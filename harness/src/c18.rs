//! C18 — EFI memory-map iteration honours descriptor stride, count and bounds.

use crate::nd;
use crate::util::*;
use crate::{cover, noreturn, vassert};
use multiboot2::{EFIMemoryDesc, EFIMemoryMapTag, TagHeader};
use multiboot2_common::DynSizedStructure;

/// View `b[..round8(size)]` as an EFI memory-map tag (type 17).
pub fn efi_tag<const N: usize>(b: &Aligned<N>, size: usize) -> &EFIMemoryMapTag {
    let s = DynSizedStructure::<TagHeader>::ref_from_slice(&b.0[..round8(size)]).unwrap();
    s.cast::<EFIMemoryMapTag>()
}

fn accepts(version: u32, d: usize, l: usize) -> bool {
    version == 1 && d >= 40 && d % 8 == 0 && l % d == 0
}

/// `N` = object size (16 + maximal map length), `MAXD` = maximal descriptor size.
fn accepting<const N: usize, const MAXD: usize>() {
    let mut b = Aligned::<N>::any();
    let size: usize = nd::any();
    nd::assume(size >= 16 && size <= N);
    put32(&mut b.0, 0, 17);
    put32(&mut b.0, 4, size as u32);
    let d = le32(&b.0, 8) as usize;
    let version = le32(&b.0, 12);
    let l = size - 16;
    nd::assume(d <= MAXD);
    nd::assume(accepts(version, d, l));
    let tag = efi_tag(&b, size);
    let base = b.addr();
    let total = l / d;
    let mut it = tag.memory_areas();
    vassert!(it.len() == total, "len() before iteration is L/d");
    let mut i = 0usize;
    while let Some(desc) = it.next() {
        vassert!(i < total, "no more than L/d descriptors");
        let off = 16 + i * d;
        let p = desc as *const EFIMemoryDesc as usize;
        vassert!(p == base + off, "i-th descriptor is decoded at map offset i*d");
        vassert!(desc.ty.0 == le32(&b.0, off), "type field");
        vassert!(desc.phys_start == le64(&b.0, off + 8), "phys_start field");
        vassert!(desc.virt_start == le64(&b.0, off + 16), "virt_start field");
        vassert!(desc.page_count == le64(&b.0, off + 24), "page_count field");
        vassert!(desc.att.bits() == le64(&b.0, off + 32), "attribute field");
        i += 1;
        vassert!(it.len() == total - i, "len() equals the number of items still to come");
        let (lo, hi) = it.size_hint();
        vassert!(lo == total - i && hi == Some(total - i), "size_hint equals the number of items still to come");
    }
    cover!(total == 0, "empty map");
    cover!(total == 2 && d == 48, "two descriptors of 48");
    cover!(total == 1 && d == 40, "one descriptor of 40");
    vassert!(i == total, "exactly L/d descriptors");
    // polling an exhausted iterator changes nothing: still exhausted, still nothing to come
    vassert!(it.len() == 0, "len() is 0 once exhausted");
    vassert!(it.next().is_none(), "stays exhausted");
    vassert!(it.len() == 0 && it.size_hint() == (0, Some(0)), "len()/size_hint() stay 0 after polling an exhausted iterator");
    vassert!(it.next().is_none(), "stays exhausted (second poll)");
}

fn rejecting<const N: usize, const MAXD: usize>() {
    let mut b = Aligned::<N>::any();
    let size: usize = nd::any();
    nd::assume(size >= 16 && size <= N);
    put32(&mut b.0, 0, 17);
    put32(&mut b.0, 4, size as u32);
    let d = le32(&b.0, 8) as usize;
    let version = le32(&b.0, 12);
    let l = size - 16;
    nd::assume(d <= MAXD);
    nd::assume(!accepts(version, d, l));
    cover!(d == 0, "zero descriptor size");
    cover!(d == 24 && l == 48 && version == 1, "descriptor size below 40 dividing the map");
    cover!(d == 44 && l == 88 && version == 1, "descriptor size not a multiple of 8");
    cover!(d == 48 && l == 40 && version == 1, "map length not divisible");
    cover!(d == 48 && l == 48 && version == 2, "unknown version");
    let tag = efi_tag(&b, size);
    let _it = tag.memory_areas();
    noreturn!("a version/descriptor-size/length combination outside the accepted set must be rejected by a panic");
}

/// The map fills the object exactly, so a descriptor reaching past the tag is
/// also an object-bounds violation of the model checker.
fn in_bounds<const N: usize, const MAXD: usize>() {
    let mut b = Aligned::<N>::any();
    put32(&mut b.0, 0, 17);
    put32(&mut b.0, 4, N as u32);
    let d = le32(&b.0, 8) as usize;
    nd::assume(d <= MAXD);
    let tag = efi_tag(&b, N);
    let base = b.addr();
    let mut ok = true;
    let mut n = 0usize;
    for desc in tag.memory_areas() {
        let p = desc as *const EFIMemoryDesc as usize;
        ok &= p % 8 == 0;
        ok &= inside(p, 40, base + 16, N - 16);
        // touch first and last byte of the descriptor
        let _ = desc.ty;
        let _ = desc.att;
        n += 1;
        if n > (N - 16) / 8 {
            break;
        }
    }
    cover!(n >= 2, "several descriptors produced");
    vassert!(ok, "every produced descriptor is 8-aligned and lies inside the tag");
}

// @harness props=C18,C08 tier=quick panic=forbid
// @encodes multiboot2::EFIMemoryMapTag::memory_areas EFIMemoryAreaIter::new next len size_hint EFIMemoryMapTag::dst_len DynSizedStructure::cast
// @bound map length L in 0..=96, descriptor size d in 0..=128, all accepted (version 1, d>=40, d%8==0, L%d==0) combinations, contents symbolic
#[cfg_attr(kani, kani::proof)]
#[cfg_attr(kani, kani::unwind(4))]
pub fn c18_accepting_96() {
    accepting::<112, 128>();
}

// @harness props=C18 tier=thorough panic=forbid
// @encodes as c18_accepting_96
// @bound map length L in 0..=200 (up to 5 descriptors), d in 0..=128
#[cfg_attr(kani, kani::proof)]
#[cfg_attr(kani, kani::unwind(7))]
pub fn c18_accepting_200() {
    accepting::<216, 128>();
}

// @harness props=C18,C08 tier=quick panic=allow must_panic=yes
// @encodes multiboot2::EFIMemoryMapTag::memory_areas EFIMemoryAreaIter::new on rejected combinations
// @bound L in 0..=96, d in 0..=128, every version, all combinations outside the accepted set
#[cfg_attr(kani, kani::proof)]
#[cfg_attr(kani, kani::unwind(4))]
pub fn c18_rejecting_96() {
    rejecting::<112, 128>();
}

// @harness props=C18,C01,C08 tier=quick panic=allow
// @encodes EFIMemoryAreaIter::next (raw pointer arithmetic) with the tag as an exact-size memory object
// @bound map length exactly 96, d in 0..=128, all versions; object bounds of the model + extent assertion
#[cfg_attr(kani, kani::proof)]
#[cfg_attr(kani, kani::unwind(14))]
pub fn c18_in_bounds_96() {
    in_bounds::<112, 128>();
}

// @harness props=C18,C01 tier=thorough panic=allow
// @encodes as c18_in_bounds_96
// @bound map length exactly 80 and 120
#[cfg_attr(kani, kani::proof)]
#[cfg_attr(kani, kani::unwind(17))]
pub fn c18_in_bounds_120() {
    in_bounds::<136, 128>();
}
