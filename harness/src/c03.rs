//! C03 — tag iteration reproduces the specification's tag walk, zero-copy.

use crate::nd;
use crate::util::*;
use crate::{cover, noreturn, vassert};
use multiboot2::{BootInformation, BootInformationHeader, TagType};

/// The specification's walk over `b[8..n]`: `Some(k)` = tiles the region
/// exactly with `k` tags of size >= 8; `None` = leaves the region or meets a
/// size below 8.
pub fn spec_walk(b: &[u8], n: usize) -> Option<usize> {
    let mut off = 8usize;
    let mut k = 0usize;
    while off < n {
        let size = le32(b, off + 4) as usize;
        if size < 8 || size > n - off {
            return None;
        }
        off += round8(size);
        k += 1;
    }
    if off == n {
        Some(k)
    } else {
        None
    }
}

pub fn load<const N: usize>(b: &Aligned<N>) -> Option<BootInformation<'_>> {
    unsafe { BootInformation::load(b.0.as_ptr().cast::<BootInformationHeader>()) }.ok()
}

fn walk_valid<const N: usize>() {
    let mut b = Aligned::<N>::any();
    put32(&mut b.0, 0, N as u32);
    let k = spec_walk(&b.0, N);
    nd::assume(k.is_some());
    let bi = match load(&b) {
        Some(bi) => bi,
        None => return, // no end tag at the end: C02's business
    };
    let base = b.addr();
    let mut it = bi.tags();
    let mut off = 8usize;
    let mut n = 0usize;
    while off < N {
        let typ = le32(&b.0, off);
        let size = le32(&b.0, off + 4) as usize;
        let t = it.next();
        vassert!(t.is_some(), "iterator yields a tag wherever the spec walk finds one");
        let t = t.unwrap();
        vassert!(t as *const _ as *const u8 as usize == base + off, "item is located at the walk's offset inside the original memory");
        vassert!(u32::from(t.header().typ) == typ, "item reports the stored type");
        vassert!(t.header().size as usize == size, "item reports the stored size");
        vassert!(t.payload().len() == size - 8, "item exposes exactly size - 8 payload bytes");
        vassert!(t.payload().as_ptr() as usize == base + off + 8, "payload directly follows the tag header");
        off += round8(size);
        n += 1;
    }
    cover!(n == 1, "one tag");
    cover!(n == N / 8 - 1, "maximal number of tags");
    cover!(n == 2 && le32(&b.0, 12) % 8 == 3, "unaligned size");
    vassert!(it.next().is_none(), "iterator ends with the region");
    vassert!(it.next().is_none(), "iterator stays exhausted");
    vassert!(Some(n) == k, "walk length");
}

fn walk_invalid<const N: usize>() {
    let mut b = Aligned::<N>::any();
    put32(&mut b.0, 0, N as u32);
    nd::assume(spec_walk(&b.0, N).is_none());
    let bi = match load(&b) {
        Some(bi) => bi,
        None => return,
    };
    let mut it = bi.tags();
    let mut i = 0;
    // the walk must end in a controlled panic before it can finish
    while i < N / 8 {
        if it.next().is_none() {
            break;
        }
        i += 1;
    }
    noreturn!("a walk that leaves the region or meets a size below 8 must not complete");
}

fn repeatable<const N: usize>() {
    let mut b = Aligned::<N>::any();
    put32(&mut b.0, 0, N as u32);
    let bi = match load(&b) {
        Some(bi) => bi,
        None => return,
    };
    let k: usize = nd::any();
    nd::assume(k < N / 8);
    let mut a = bi.tags();
    let mut f = bi.tags();
    let mut c = None;
    let mut i = 0usize;
    let mut ok = true;
    while i <= N / 8 {
        if i == k {
            c = Some(a.clone());
        }
        let x = a.next().map(|t| t as *const _ as *const u8 as usize);
        let y = f.next().map(|t| t as *const _ as *const u8 as usize);
        ok &= x == y;
        if let Some(c) = c.as_mut() {
            let z = c.next().map(|t| t as *const _ as *const u8 as usize);
            ok &= x == z;
        }
        if x.is_none() {
            break;
        }
        i += 1;
    }
    cover!(i >= 2 && k == 1, "clone taken mid-walk");
    vassert!(ok, "clones and fresh iterators yield the same sequence");
}

fn modules<const N: usize>() {
    let mut b = Aligned::<N>::any();
    put32(&mut b.0, 0, N as u32);
    nd::assume(spec_walk(&b.0, N).is_some());
    // module tags smaller than their fixed part are rejected by a controlled
    // panic when viewed as ModuleTag (C05); keep them out of this harness
    let mut off = 8usize;
    while off < N {
        let size = le32(&b.0, off + 4) as usize;
        if le32(&b.0, off) == 3 {
            nd::assume(size >= 16);
        }
        off += round8(size);
    }
    let bi = match load(&b) {
        Some(bi) => bi,
        None => return,
    };
    let base = b.addr();
    let mut m = bi.module_tags();
    let mut off = 8usize;
    let mut n = 0;
    while off < N {
        let typ = le32(&b.0, off);
        let size = le32(&b.0, off + 4) as usize;
        if typ == 3 {
            let t = m.next();
            vassert!(t.is_some(), "module iterator yields every module tag of the walk");
            let t = t.unwrap();
            vassert!(t as *const _ as *const u8 as usize == base + off, "module tags come in walk order at their own addresses");
            vassert!(t.start_address() == le32(&b.0, off + 8) && t.end_address() == le32(&b.0, off + 12), "module fields");
            n += 1;
        }
        off += round8(size);
    }
    cover!(n == (N - 16) / 16, "as many modules as fit");
    cover!(n == 0, "no module");
    vassert!(m.next().is_none(), "module iterator yields nothing else");
    vassert!(m.next().is_none(), "module iterator stays exhausted");
}

// @harness props=C03,C08 tier=quick panic=forbid features=both
// @encodes multiboot2::BootInformation::tags multiboot2_common::TagIter::<TagHeader>::new TagIter::next TagHeader::payload_len increase_to_alignment DynSizedStructure::ref_from_slice header payload
// @bound 48-byte region (<= 5 tags), every tag header fully symbolic (all types, all sizes 0..2^32), regions whose spec walk tiles exactly; unwinding assertions on
#[cfg_attr(kani, kani::proof)]
#[cfg_attr(kani, kani::unwind(8))]
pub fn c03_walk_valid_48() {
    walk_valid::<48>();
}

// @harness props=C03 tier=thorough panic=forbid
// @encodes as c03_walk_valid_48
// @bound 64-byte region (<= 7 tags)
#[cfg_attr(kani, kani::proof)]
#[cfg_attr(kani, kani::unwind(10))]
pub fn c03_walk_valid_64() {
    walk_valid::<64>();
}

// @harness props=C03 tier=thorough panic=forbid
// @encodes as c03_walk_valid_48
// @bound 32-byte region (<= 3 tags)
#[cfg_attr(kani, kani::proof)]
#[cfg_attr(kani, kani::unwind(6))]
pub fn c03_walk_valid_32() {
    walk_valid::<32>();
}

// @harness props=C03,C08 tier=quick panic=allow must_panic=yes
// @encodes TagIter::next on walks that leave the region or meet size < 8
// @bound 48-byte region, all header contents whose spec walk does NOT tile the region
#[cfg_attr(kani, kani::proof)]
#[cfg_attr(kani, kani::unwind(8))]
pub fn c03_walk_invalid_48() {
    walk_invalid::<48>();
}

// @harness props=C03 tier=thorough panic=allow must_panic=yes
// @encodes as c03_walk_invalid_48
// @bound 64-byte region
#[cfg_attr(kani, kani::proof)]
#[cfg_attr(kani, kani::unwind(10))]
pub fn c03_walk_invalid_64() {
    walk_invalid::<64>();
}

// @harness props=C03 tier=quick panic=allow
// @encodes TagIter::clone TagIter::next (interleaved on three iterators over the same region)
// @bound 40-byte region, clone taken at a symbolic step, next() calls in lock-step
#[cfg_attr(kani, kani::proof)]
#[cfg_attr(kani, kani::unwind(8))]
pub fn c03_repeatable_40() {
    repeatable::<40>();
}

// @harness props=C03 tier=thorough panic=allow
// @encodes as c03_repeatable_40
// @bound 56-byte region
#[cfg_attr(kani, kani::proof)]
#[cfg_attr(kani, kani::unwind(10))]
pub fn c03_repeatable_56() {
    repeatable::<56>();
}

// @harness props=C03,C08 tier=quick panic=forbid
// @encodes as c03_modules_56
// @bound 32-byte region with a tiling walk (<= 3 tags); module tags of size >= 16
#[cfg_attr(kani, kani::proof)]
#[cfg_attr(kani, kani::unwind(6))]
pub fn c03_modules_32() {
    modules::<32>();
}

// @harness props=C03 tier=thorough panic=forbid timeout=1500
// @encodes as c03_modules_56
// @bound 40-byte region with a tiling walk (<= 4 tags); module tags of size >= 16
#[cfg_attr(kani, kani::proof)]
#[cfg_attr(kani, kani::unwind(7))]
pub fn c03_modules_40() {
    modules::<40>();
}

// @harness props=C03 tier=thorough panic=forbid timeout=3000
// @encodes multiboot2::BootInformation::module_tags module::module_iter ModuleIter::next DynSizedStructure::cast::<ModuleTag> ModuleTag::dst_len start_address end_address
// @bound 56-byte region with a tiling walk; module tags of size >= 16
#[cfg_attr(kani, kani::proof)]
#[cfg_attr(kani, kani::unwind(9))]
pub fn c03_modules_56() {
    modules::<56>();
}
