//! Native replay of a solver counterexample: runs the very harness function
//! the model checker decided, with the solver's assignment.
//!
//! usage: replay <harness> <hexvals>      hexvals = comma-separated hex strings,
//!                                         one per nondet value ("-" = none)
//! Prints `OUTCOME: ok` or `OUTCOME: panic <message>`; exit 0 in both cases,
//! exit 3 if the replay diverged from the trace (assumption violated, queue
//! exhausted), exit 4 for an unknown harness.
#[cfg(not(kani))]
use std::panic;

#[cfg(not(kani))]
#[global_allocator]
static TRACKER: mb2_harness::nd::alloc_track::Tracker = mb2_harness::nd::alloc_track::Tracker;

#[cfg(kani)]
fn main() {}

#[cfg(not(kani))]
fn unhex(s: &str) -> Vec<u8> {
    (0..s.len() / 2)
        .map(|i| u8::from_str_radix(&s[2 * i..2 * i + 2], 16).unwrap())
        .collect()
}

#[cfg(not(kani))]
fn main() {
    let a: Vec<String> = std::env::args().collect();
    if a.len() >= 4 && a[1] == "--probe" {
        let arg = if let Some(p) = a[3].strip_prefix('@') {
            std::fs::read_to_string(p).unwrap().trim().to_string()
        } else {
            a[3].clone()
        };
        let bytes = if arg == "-" { vec![] } else { unhex(&arg) };
        panic::set_hook(Box::new(|info| {
            let msg = if let Some(s) = info.payload().downcast_ref::<&str>() {
                s.to_string()
            } else if let Some(s) = info.payload().downcast_ref::<String>() {
                s.clone()
            } else {
                "<non-string panic>".to_string()
            };
            let loc = info.location().map(|l| format!("{}:{}", l.file(), l.line())).unwrap_or_default();
            println!("PROBE: panic {} @ {}", msg.replace('\n', " "), loc);
        }));
        let name = a[2].clone();
        let r = panic::catch_unwind(move || mb2_harness::probes::run(&name, &bytes));
        if let Ok(false) = r {
            eprintln!("unknown probe");
            std::process::exit(4);
        }
        return;
    }
    if a.len() < 3 {
        eprintln!("usage: replay <harness> <hexvals|@file>");
        std::process::exit(4);
    }
    let spec = if let Some(p) = a[2].strip_prefix('@') {
        std::fs::read_to_string(p).unwrap().trim().to_string()
    } else {
        a[2].clone()
    };
    if let Some(b) = spec.strip_prefix("fill:") {
        mb2_harness::nd::set_fill(b.parse().unwrap());
    }
    let vals: Vec<Vec<u8>> = if spec == "-" || spec.is_empty() || spec.starts_with("fill:") {
        vec![]
    } else {
        spec.split(',').map(unhex).collect()
    };
    let f = match mb2_harness::registry::HARNESSES.iter().find(|(n, _)| *n == a[1]) {
        Some((_, f)) => *f,
        None => {
            eprintln!("unknown harness {}", a[1]);
            std::process::exit(4);
        }
    };
    mb2_harness::nd::load_queue(vals);
    panic::set_hook(Box::new(|info| {
        let msg = if let Some(s) = info.payload().downcast_ref::<&str>() {
            s.to_string()
        } else if let Some(s) = info.payload().downcast_ref::<String>() {
            s.clone()
        } else {
            "<non-string panic>".to_string()
        };
        let loc = info.location().map(|l| format!("{}:{}", l.file(), l.line())).unwrap_or_default();
        // panics raised in this crate's own sources are harness assertions
        let tag = if loc.starts_with("src/") && !loc.starts_with("src/usertypes.rs") { "VERIF: " } else { "" };
        println!("OUTCOME: panic {}{} @ {}", tag, msg.replace('\n', " "), loc);
    }));
    let r = panic::catch_unwind(f);
    for c in mb2_harness::nd::covers() {
        println!("COVER: {}", c);
    }
    if r.is_ok() {
        println!("OUTCOME: ok");
    }
}
