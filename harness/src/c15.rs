//! C15 — casting to a (user-defined) tag type never yields a view larger than
//! the tag.  Built-in DST kinds are covered by the C05 harnesses (same
//! assertions: same address, size_of_val == round8(size)); here: user-defined
//! sized and dynamically sized custom tags, and the built-in sized kinds.

use crate::nd;
use crate::util::*;
use crate::{cover, noreturn, vassert};
use multiboot2::{BootInformation, BootInformationHeader, TagHeader, TagType, TagTypeId};
use multiboot2_common::{DynSizedStructure, MaybeDynSized, Tag};

const OBJ: usize = 112; // sizes 8..=96 + neighbour bytes

pub use crate::usertypes::*;

fn tag_of(b: &Aligned<OBJ>, size: usize) -> &DynSizedStructure<TagHeader> {
    DynSizedStructure::<TagHeader>::ref_from_slice(&b.0[..round8(size)]).unwrap()
}

fn setup() -> (Aligned<OBJ>, usize) {
    let mut b = Aligned::<OBJ>::any();
    let size: usize = nd::any();
    nd::assume(size >= 8 && size <= 96);
    put32(&mut b.0, 4, size as u32);
    (b, size)
}

/// Either panics or: same address, in-memory size == round8(tag size).
fn cast_check<T: MaybeDynSized<Header = TagHeader> + ?Sized>(b: &Aligned<OBJ>, size: usize) -> &T {
    let g = tag_of(b, size);
    let t = g.cast::<T>();
    vassert!(t as *const T as *const u8 as usize == b.addr(), "view is at the tag's address");
    vassert!(core::mem::size_of_val(t) == round8(size), "view's in-memory size equals the tag's size rounded up to 8");
    t
}

// @harness props=C15,C08 tier=quick panic=allow
// @encodes DynSizedStructure::<TagHeader>::cast::<T> for user-defined sized T with 0..=6 extra u32 (BASE_SIZE = size_of::<T>())
// @bound tag size 8..=96 symbolic, contents symbolic, 7 sized types selected by a symbolic index
#[cfg_attr(kani, kani::proof)]
pub fn c15_sized_custom() {
    let (b, size) = setup();
    let k: u8 = nd::any();
    nd::assume(k <= 6);
    let mut returned = false;
    match k {
        0 => { cast_check::<Sized_<0>>(&b, size); }
        1 => { let t = cast_check::<Sized_<1>>(&b, size); vassert!(t.extra[0] == le32(&b.0, 8), "field aliases the tag's bytes"); }
        2 => { let t = cast_check::<Sized_<2>>(&b, size); vassert!(t.extra[1] == le32(&b.0, 12), "field aliases the tag's bytes"); }
        3 => { let t = cast_check::<Sized_<3>>(&b, size); vassert!(t.extra[2] == le32(&b.0, 16), "field aliases the tag's bytes"); }
        4 => { let t = cast_check::<Sized_<4>>(&b, size); vassert!(t.extra[3] == le32(&b.0, 20), "field aliases the tag's bytes"); }
        5 => { let t = cast_check::<Sized_<5>>(&b, size); vassert!(t.extra[4] == le32(&b.0, 24), "field aliases the tag's bytes"); }
        _ => { let t = cast_check::<Sized_<6>>(&b, size); vassert!(t.extra[5] == le32(&b.0, 28), "field aliases the tag's bytes"); }
    }
    cover!(k == 3 && size == 20, "exact sized match");
    cover!(k == 3 && size == 24, "padded sized match");
    cover!(k == 0, "header only");
}

// @harness props=C15 tier=quick panic=allow
// @encodes cast::<T> for user-defined DST T over an 8-aligned header: fixed part 8/16/24, element size 1,2,3,4,8,24
// @bound tag size 8..=96 symbolic, 11 DST types selected by a symbolic index
#[cfg_attr(kani, kani::proof)]
pub fn c15_dst_custom() {
    let (b, size) = setup();
    let k: u8 = nd::any();
    nd::assume(k <= 10);
    match k {
        0 => { let t = cast_check::<D8e1>(&b, size); if size > 8 { vassert!(t.tail[size - 9] == b.0[size - 1], "last element aliases the tag's last byte"); } }
        1 => { let t = cast_check::<D8e2>(&b, size); if size >= 10 { vassert!(t.tail[0] == le16(&b.0, 8), "first element"); } }
        2 => { let t = cast_check::<D8e3>(&b, size); if size >= 11 { vassert!(t.tail[0].0[2] == b.0[10], "first element"); } }
        3 => { let t = cast_check::<D8e4>(&b, size); if size >= 12 { vassert!(t.tail[0] == le32(&b.0, 8), "first element"); } }
        4 => { let t = cast_check::<D8e8>(&b, size); if size >= 16 { vassert!(t.tail[0] == le64(&b.0, 8), "first element"); } }
        5 => { let t = cast_check::<D16e1>(&b, size); vassert!(t.a == le64(&b.0, 8), "fixed field"); }
        6 => { let t = cast_check::<D16e3>(&b, size); vassert!(t.b == le32(&b.0, 12), "fixed field"); }
        7 => { let t = cast_check::<D16e4>(&b, size); if size >= 20 { vassert!(t.tail[0] == le32(&b.0, 16), "first element"); } }
        8 => { let t = cast_check::<D16e24>(&b, size); if size >= 40 { vassert!(t.tail[0].2 == le64(&b.0, 32), "first element"); } }
        9 => { let t = cast_check::<D24e2>(&b, size); vassert!(t.b == le64(&b.0, 16), "fixed field"); }
        _ => { let t = cast_check::<D24e8>(&b, size); if size >= 32 { vassert!(t.tail[0] == le64(&b.0, 24), "first element"); } }
    }
    cover!(k == 2 && size == 14, "element size 3, two elements");
    cover!(k == 8 && size == 64, "element size 24, two elements");
    cover!(k == 10 && size == 24, "empty tail");
}

// @harness props=C15 tier=quick panic=allow
// @encodes cast::<T> for user-defined DST T in the raw-field 4-aligned form (fixed part 8, 12, 20)
// @bound tag size 8..=96 symbolic, 4 types selected by a symbolic index
#[cfg_attr(kani, kani::proof)]
pub fn c15_dst_raw_custom() {
    let (b, size) = setup();
    let k: u8 = nd::any();
    nd::assume(k <= 3);
    match k {
        0 => { let t = cast_check::<R8e1>(&b, size); if size > 8 { vassert!(t.tail[0] == b.0[8], "first element"); } }
        1 => { let t = cast_check::<R12e1>(&b, size); vassert!(t.a == le32(&b.0, 8), "fixed field"); }
        2 => { let t = cast_check::<R12e4>(&b, size); if size >= 16 { vassert!(t.tail[0] == le32(&b.0, 12), "first element"); } }
        _ => { let t = cast_check::<R20e2>(&b, size); vassert!(t.c == le32(&b.0, 16), "fixed field"); }
    }
    cover!(k == 0 && size == 14, "the repository test's shape");
    cover!(k == 1 && size == 16, "fixed part 12");
}

// @harness props=C15 tier=quick panic=allow
// @encodes multiboot2::BootInformation::get_tag::<T> for a user-defined DST and a user-defined sized tag
// @bound 48-byte region: header, one custom tag of symbolic size 8..=24 at offset 8, symbolic rest, end tag
#[cfg_attr(kani, kani::proof)]
#[cfg_attr(kani, kani::unwind(7))]
pub fn c15_get_tag_custom() {
    const N: usize = 48;
    let mut b = Aligned::<N>::any();
    put32(&mut b.0, 0, N as u32);
    let dst = nd::any_bool();
    put32(&mut b.0, 8, if dst { 0x1001 } else { 0x1000 });
    let size = le32(&b.0, 12) as usize;
    nd::assume(size >= 8 && size <= 24);
    put32(&mut b.0, N - 8, 0);
    put32(&mut b.0, N - 4, 8);
    let bi = match unsafe { BootInformation::load(b.0.as_ptr().cast::<BootInformationHeader>()) } {
        Ok(bi) => bi,
        Err(_) => { vassert!(false, "region with an end tag must load"); return; }
    };
    if dst {
        let t = bi.get_tag::<D8e3>();
        vassert!(t.is_some(), "custom tag found");
        let t = t.unwrap();
        vassert!(t as *const D8e3 as *const u8 as usize == b.addr() + 8, "same address");
        vassert!(core::mem::size_of_val(t) == round8(size), "same size");
        cover!(size == 14, "dst returned");
    } else {
        let t = bi.get_tag::<Sized_<2>>();
        vassert!(t.is_some(), "custom tag found");
        let t = t.unwrap();
        vassert!(t as *const Sized_<2> as *const u8 as usize == b.addr() + 8, "same address");
        vassert!(round8(size) == 16, "sized view only when the sizes agree");
        cover!(size == 16, "sized returned");
    }
}

macro_rules! builtin_sized {
    ($b:expr, $size:expr, $t:ty) => {{
        let t = cast_check::<$t>($b, $size);
        vassert!(round8($size) == core::mem::size_of::<$t>(), "sized built-in view only for a tag of its own size");
    }};
}

// @harness props=C15,C05,C08 tier=quick panic=allow
// @encodes cast::<T> for the built-in sized kinds: BasicMemoryInfoTag BootdevTag ApmTag EFISdt32Tag EFISdt64Tag EFIImageHandle32Tag EFIImageHandle64Tag EFIBootServicesNotExitedTag ImageLoadPhysAddrTag RsdpV1Tag RsdpV2Tag EndTag
// @bound tag size 8..=96 symbolic; VBEInfoTag (784 bytes) is covered by c01_vbe
#[cfg_attr(kani, kani::proof)]
pub fn c15_builtin_sized() {
    use multiboot2::*;
    let (b, size) = setup();
    let k: u8 = nd::any();
    nd::assume(k <= 11);
    match k {
        0 => builtin_sized!(&b, size, BasicMemoryInfoTag),
        1 => builtin_sized!(&b, size, BootdevTag),
        2 => builtin_sized!(&b, size, ApmTag),
        3 => builtin_sized!(&b, size, EFISdt32Tag),
        4 => builtin_sized!(&b, size, EFISdt64Tag),
        5 => builtin_sized!(&b, size, EFIImageHandle32Tag),
        6 => builtin_sized!(&b, size, EFIImageHandle64Tag),
        7 => builtin_sized!(&b, size, EFIBootServicesNotExitedTag),
        8 => builtin_sized!(&b, size, ImageLoadPhysAddrTag),
        9 => builtin_sized!(&b, size, RsdpV1Tag),
        10 => builtin_sized!(&b, size, RsdpV2Tag),
        _ => builtin_sized!(&b, size, EndTag),
    }
    cover!(k == 2 && size == 28, "apm at its specified size");
    cover!(k == 10 && size == 44, "rsdp v2 at its specified size");
}
