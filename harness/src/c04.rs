//! C04 — typed getters select the first matching tag and decode every
//! specified field.  Offsets/widths transcribed from the Multiboot2
//! specification §3.6.x (and VBE 3.0 / ACPI RSDP / UEFI descriptor layouts),
//! independent of the struct definitions.

use crate::nd;
use crate::util::*;
use crate::{cover, noreturn, vassert};
use multiboot2::*;

/// `[header 8][one tag of type `typ`, declared `size`, symbolic body][end tag]`
pub fn one_tag_region<const N: usize>(typ: u32, size: usize) -> Aligned<N> {
    let mut b = Aligned::<N>::any();
    put32(&mut b.0, 0, N as u32);
    put32(&mut b.0, 8, typ);
    put32(&mut b.0, 12, size as u32);
    put32(&mut b.0, N - 8, 0);
    put32(&mut b.0, N - 4, 8);
    b
}

pub fn must_load<const N: usize>(b: &Aligned<N>) -> BootInformation<'_> {
    match unsafe { BootInformation::load(b.0.as_ptr().cast::<BootInformationHeader>()) } {
        Ok(bi) => bi,
        Err(_) => panic!("a spec-conformant region must load"),
    }
}

const T: usize = 8; // offset of the tag inside the region

// @harness props=C04 tier=quick panic=forbid
// @encodes BootInformation::{basic_memory_info_tag,bootdev_tag,apm_tag} and all field accessors
// @bound one conformant tag per region (spec size), every field byte symbolic
#[cfg_attr(kani, kani::proof)]
#[cfg_attr(kani, kani::unwind(5))]
pub fn c04_fields_meminfo_bootdev_apm() {
    let k: u8 = nd::any();
    if k == 0 {
        let b = one_tag_region::<32>(4, 16);
        let bi = must_load(&b);
        let t = bi.basic_memory_info_tag();
        vassert!(t.is_some(), "getter finds the tag");
        let t = t.unwrap();
        vassert!(t.memory_lower() == le32(&b.0, T + 8) && t.memory_upper() == le32(&b.0, T + 12), "mem_lower@8 mem_upper@12");
        vassert!(bi.bootdev_tag().is_none() && bi.apm_tag().is_none(), "other getters find nothing");
    } else if k == 1 {
        let b = one_tag_region::<40>(5, 20);
        let bi = must_load(&b);
        let t = bi.bootdev_tag();
        vassert!(t.is_some(), "getter finds the tag");
        let t = t.unwrap();
        vassert!(t.biosdev() == le32(&b.0, T + 8) && t.slice() == le32(&b.0, T + 12) && t.part() == le32(&b.0, T + 16), "biosdev@8 partition@12 sub_partition@16");
        vassert!(bi.basic_memory_info_tag().is_none(), "other getters find nothing");
    } else {
        let b = one_tag_region::<48>(10, 28);
        let bi = must_load(&b);
        let t = bi.apm_tag();
        vassert!(t.is_some(), "getter finds the tag");
        let t = t.unwrap();
        vassert!(t.version() == le16(&b.0, T + 8) && t.cseg() == le16(&b.0, T + 10) && t.offset() == le32(&b.0, T + 12), "version@8 cseg@10 offset@12");
        vassert!(t.cset_16() == le16(&b.0, T + 16) && t.dseg() == le16(&b.0, T + 18) && t.flags() == le16(&b.0, T + 20), "cseg_16@16 dseg@18 flags@20");
        vassert!(t.cseg_len() == le16(&b.0, T + 22) && t.cseg_16_len() == le16(&b.0, T + 24) && t.dseg_len() == le16(&b.0, T + 26), "cseg_len@22 cseg_16_len@24 dseg_len@26");
        cover!(true, "apm decoded");
    }
}

// @harness props=C04 tier=quick panic=forbid
// @encodes BootInformation::{efi_sdt32_tag,efi_sdt64_tag,efi_ih32_tag,efi_ih64_tag,efi_bs_not_exited_tag,load_base_addr_tag} and accessors
// @bound one conformant tag per region, every field byte symbolic
#[cfg_attr(kani, kani::proof)]
#[cfg_attr(kani, kani::unwind(5))]
pub fn c04_fields_efi_loadbase() {
    let k: u8 = nd::any();
    match k {
        0 => {
            let b = one_tag_region::<32>(11, 12);
            let bi = must_load(&b);
            let t = bi.efi_sdt32_tag();
            vassert!(t.is_some() && t.unwrap().sdt_address() == le32(&b.0, T + 8) as usize, "EFI32 pointer@8");
            vassert!(bi.efi_sdt64_tag().is_none() && bi.efi_ih32_tag().is_none(), "no cross-talk");
        }
        1 => {
            let b = one_tag_region::<32>(12, 16);
            let bi = must_load(&b);
            let t = bi.efi_sdt64_tag();
            vassert!(t.is_some() && t.unwrap().sdt_address() == le64(&b.0, T + 8) as usize, "EFI64 pointer@8");
            vassert!(bi.efi_ih64_tag().is_none(), "no cross-talk");
        }
        2 => {
            let b = one_tag_region::<32>(19, 12);
            let bi = must_load(&b);
            let t = bi.efi_ih32_tag();
            vassert!(t.is_some() && t.unwrap().image_handle() == le32(&b.0, T + 8) as usize, "EFI32 image handle@8");
        }
        3 => {
            let b = one_tag_region::<32>(20, 16);
            let bi = must_load(&b);
            let t = bi.efi_ih64_tag();
            vassert!(t.is_some() && t.unwrap().image_handle() == le64(&b.0, T + 8) as usize, "EFI64 image handle@8");
        }
        4 => {
            let b = one_tag_region::<24>(18, 8);
            let bi = must_load(&b);
            vassert!(bi.efi_bs_not_exited_tag().is_some(), "EFI boot services tag found");
            vassert!(bi.efi_memory_map_tag().is_none(), "no EFI map");
        }
        _ => {
            let b = one_tag_region::<32>(21, 12);
            let bi = must_load(&b);
            let t = bi.load_base_addr_tag();
            vassert!(t.is_some() && t.unwrap().load_base_addr() == le32(&b.0, T + 8), "load base address@8");
            cover!(true, "load base decoded");
        }
    }
}

fn bytesum(b: &[u8], from: usize, to: usize) -> u8 {
    let mut s = 0u8;
    let mut i = from;
    while i < to {
        s = s.wrapping_add(b[i]);
        i += 1;
    }
    s
}

// @harness props=C04 tier=quick panic=forbid
// @encodes BootInformation::rsdp_v1_tag RsdpV1Tag::{checksum_is_valid,revision,rsdt_address}
// @bound one RSDP v1 tag (size 28), all field bytes symbolic
#[cfg_attr(kani, kani::proof)]
#[cfg_attr(kani, kani::unwind(30))]
pub fn c04_fields_rsdp_v1() {
    let b = one_tag_region::<48>(14, 28);
    let bi = must_load(&b);
    let t = bi.rsdp_v1_tag();
    vassert!(t.is_some(), "getter finds the tag");
    let t = t.unwrap();
    vassert!(t.revision() == b.0[T + 23] && t.rsdt_address() == le32(&b.0, T + 24) as usize, "revision@23 rsdt@24");
    let valid = bytesum(&b.0, T + 8, T + 28) == 0;
    cover!(valid, "valid checksum");
    cover!(!valid, "invalid checksum");
    vassert!(t.checksum_is_valid() == valid, "checksum validity = byte sum of the 20 RSDP bytes is 0");
    vassert!(bi.rsdp_v2_tag().is_none(), "no v2 tag");
}

// @harness props=C04 tier=quick panic=forbid
// @encodes RsdpV1Tag::{signature,oem_id} RsdpV2Tag::{signature,oem_id} (through core's UTF-8 validation)
// @bound exact-size tag objects; signature and OEM id ASCII
// @assume signature / OEM id bytes are ASCII (a conformant RSDP)
#[cfg_attr(kani, kani::proof)]
#[cfg_attr(kani, kani::unwind(17))]
pub fn c04_fields_rsdp_strings() {
    use multiboot2_common::DynSizedStructure;
    let v2 = nd::any_bool();
    let mut b = Aligned::<48>::any();
    let mut i = 0;
    while i < 15 {
        if i != 8 {
            nd::assume(b.0[8 + i] < 0x80);
        }
        i += 1;
    }
    let (sig, oem) = if v2 {
        put32(&mut b.0, 0, 15);
        put32(&mut b.0, 4, 44);
        let t = DynSizedStructure::<TagHeader>::ref_from_slice(&b.0[..48]).unwrap().cast::<RsdpV2Tag>();
        (t.signature(), t.oem_id())
    } else {
        put32(&mut b.0, 0, 14);
        put32(&mut b.0, 4, 28);
        let t = DynSizedStructure::<TagHeader>::ref_from_slice(&b.0[..32]).unwrap().cast::<RsdpV1Tag>();
        (t.signature(), t.oem_id())
    };
    match sig {
        Ok(s) => vassert!(s.len() == 8 && s.as_bytes()[0] == b.0[8] && s.as_bytes()[7] == b.0[15], "signature@8..16"),
        Err(_) => vassert!(false, "ASCII signature must decode"),
    }
    match oem {
        Ok(s) => vassert!(s.len() == 6 && s.as_bytes()[0] == b.0[17] && s.as_bytes()[5] == b.0[22], "oem id@17..23"),
        Err(_) => vassert!(false, "ASCII OEM id must decode"),
    }
    cover!(v2, "v2");
}

// @harness props=C04 tier=quick panic=forbid
// @encodes BootInformation::rsdp_v2_tag RsdpV2Tag::{checksum_is_valid,revision,xsdt_address,ext_checksum}
// @bound one RSDP v2 tag (size 44, stored RSDP length 36), all other field bytes symbolic
// @assume stored RSDP length is the specified 36
#[cfg_attr(kani, kani::proof)]
#[cfg_attr(kani, kani::unwind(40))]
pub fn c04_fields_rsdp_v2() {
    let mut b = one_tag_region::<64>(15, 44);
    put32(&mut b.0, T + 28, 36);
    let bi = must_load(&b);
    let t = bi.rsdp_v2_tag();
    vassert!(t.is_some(), "getter finds the tag");
    let t = t.unwrap();
    vassert!(t.revision() == b.0[T + 23] && t.xsdt_address() == le64(&b.0, T + 32) as usize && t.ext_checksum() == b.0[T + 40], "revision@23 xsdt@32 ext checksum@40");
    let valid = bytesum(&b.0, T + 8, T + 44) == 0;
    cover!(valid, "valid checksum");
    vassert!(t.checksum_is_valid() == valid, "checksum validity = byte sum of the 36 RSDP bytes is 0");
}

// @harness props=C04 tier=quick panic=forbid
// @encodes BootInformation::module_tags ModuleTag::{start_address,end_address,module_size} BootInformation::smbios_tag SmbiosTag::{major,minor,tables} BootInformation::boot_loader_name_tag BootLoaderNameTag::{typ,size}
// @bound module tag with 4 string bytes; SMBIOS tag with 5 table bytes; loader-name tag with 3 string bytes
// @assume module end >= start (conformant module range)
#[cfg_attr(kani, kani::proof)]
#[cfg_attr(kani, kani::unwind(8))]
pub fn c04_fields_module_smbios() {
    let k: u8 = nd::any();
    if k == 0 {
        let b = one_tag_region::<40>(3, 20);
        nd::assume(le32(&b.0, T + 12) >= le32(&b.0, T + 8));
        let bi = must_load(&b);
        let mut it = bi.module_tags();
        let t = it.next();
        vassert!(t.is_some(), "module found");
        let t = t.unwrap();
        vassert!(t.start_address() == le32(&b.0, T + 8) && t.end_address() == le32(&b.0, T + 12), "mod_start@8 mod_end@12");
        vassert!(t.module_size() == le32(&b.0, T + 12) - le32(&b.0, T + 8), "module size = end - start");
        vassert!(it.next().is_none(), "one module");
    } else if k == 1 {
        let b = one_tag_region::<40>(13, 21);
        let bi = must_load(&b);
        let t = bi.smbios_tag();
        vassert!(t.is_some(), "smbios found");
        let t = t.unwrap();
        vassert!(t.major() == b.0[T + 8] && t.minor() == b.0[T + 9], "major@8 minor@9");
        let x = t.tables();
        vassert!(x.len() == 5 && x[0] == b.0[T + 16] && x[4] == b.0[T + 20], "tables@16..size");
    } else {
        let b = one_tag_region::<32>(2, 11);
        let bi = must_load(&b);
        let t = bi.boot_loader_name_tag();
        vassert!(t.is_some(), "loader name found");
        let t = t.unwrap();
        vassert!(t.typ() == TagType::BootLoaderName && t.size() == 11, "typ() and size() report the stored header");
        vassert!(bi.command_line_tag().is_none(), "no command line");
    }
    cover!(k == 0, "module");
}

// @harness props=C04 tier=quick panic=forbid
// @encodes BootInformation::memory_map_tag MemoryMapTag::{entry_size,entry_version,memory_areas} MemoryArea::{start_address,size,end_address,typ}
// @bound memory map with two entries (size 64), all entry bytes symbolic, entry_size 24
// @assume base + length does not overflow u64 (conformant area)
#[cfg_attr(kani, kani::proof)]
#[cfg_attr(kani, kani::unwind(5))]
pub fn c04_fields_mmap() {
    let mut b = one_tag_region::<80>(6, 64);
    put32(&mut b.0, T + 8, 24);
    let bi = must_load(&b);
    let t = bi.memory_map_tag();
    vassert!(t.is_some(), "memory map found");
    let t = t.unwrap();
    vassert!(t.entry_size() == 24 && t.entry_version() == le32(&b.0, T + 12), "entry_size@8 entry_version@12");
    let a = t.memory_areas();
    vassert!(a.len() == 2, "two entries");
    let mut i = 0;
    while i < 2 {
        let o = T + 16 + 24 * i;
        vassert!(a[i].start_address() == le64(&b.0, o) && a[i].size() == le64(&b.0, o + 8), "base_addr@+0 length@+8");
        vassert!(u32::from(a[i].typ()) == le32(&b.0, o + 16), "type@+16");
        if le64(&b.0, o).checked_add(le64(&b.0, o + 8)).is_some() {
            vassert!(a[i].end_address() == le64(&b.0, o) + le64(&b.0, o + 8), "end address = base + length");
        }
        i += 1;
    }
    vassert!(MemoryAreaType::from(a[1].typ()) == MemoryAreaType::from(MemoryAreaTypeId::from(le32(&b.0, T + 56))), "area type classification");
}

// @harness props=C04,C08 tier=quick panic=forbid
// @encodes BootInformation::framebuffer_tag FramebufferTag::{address,pitch,width,height,bpp,buffer_type} framebuffer::Reader
// @bound framebuffer tag of the three known types with conformant colour info (indexed: 2 colours), all field bytes symbolic
#[cfg_attr(kani, kani::proof)]
#[cfg_attr(kani, kani::unwind(5))]
pub fn c04_fields_framebuffer() {
    let ty: u8 = nd::any();
    nd::assume(ty <= 2);
    let size = match ty {
        0 => 32 + 2 + 6,
        1 => 32 + 6,
        _ => 32,
    };
    let mut b = Aligned::<64>::any();
    let n = 16 + round8(size);
    // region of n <= 64 bytes inside the 64-byte object
    put32(&mut b.0, 0, n as u32);
    put32(&mut b.0, 8, 8);
    put32(&mut b.0, 12, size as u32);
    b.0[T + 29] = ty;
    if ty == 0 {
        put16(&mut b.0, T + 32, 2);
    }
    put32(&mut b.0, n - 8, 0);
    put32(&mut b.0, n - 4, 8);
    let bi = must_load(&b);
    let r = bi.framebuffer_tag();
    vassert!(matches!(r, Some(Ok(_))), "known framebuffer type is reported as a tag");
    let t = match r {
        Some(Ok(t)) => t,
        _ => return,
    };
    vassert!(t.address() == le64(&b.0, T + 8) && t.pitch() == le32(&b.0, T + 16) && t.width() == le32(&b.0, T + 20) && t.height() == le32(&b.0, T + 24) && t.bpp() == b.0[T + 28], "addr@8 pitch@16 width@20 height@24 bpp@28");
    match t.buffer_type() {
        Ok(FramebufferType::Indexed { palette }) => {
            vassert!(ty == 0 && palette.len() == 2, "indexed: palette count@32");
            vassert!(palette[0].red == b.0[T + 34] && palette[0].green == b.0[T + 35] && palette[0].blue == b.0[T + 36], "colour 0 @34");
            vassert!(palette[1].red == b.0[T + 37] && palette[1].green == b.0[T + 38] && palette[1].blue == b.0[T + 39], "colour 1 @37");
        }
        Ok(FramebufferType::RGB { red, green, blue }) => {
            vassert!(ty == 1, "rgb");
            vassert!(red.position == b.0[T + 32] && red.size == b.0[T + 33] && green.position == b.0[T + 34] && green.size == b.0[T + 35] && blue.position == b.0[T + 36] && blue.size == b.0[T + 37], "red pos/size green pos/size blue pos/size @32..38");
        }
        Ok(FramebufferType::Text) => vassert!(ty == 2, "text"),
        Err(_) => vassert!(false, "known type"),
    }
    cover!(ty == 0, "indexed");
    cover!(ty == 1, "rgb");
}

/// [hdr][A][B][C][end] with three 8/16-byte tags whose types are drawn from a
/// symbolic assignment: which tag does the getter return?
// @harness props=C04,C08 tier=quick panic=forbid
// @encodes BootInformation::get_tag (Iterator::find over TagIter) via efi_sdt64_tag / efi_ih64_tag / basic_memory_info_tag; efi_memory_map_tag withholding
// @bound three 16-byte tags at offsets 8, 24, 40 with symbolic types out of {4, 12, 20, 0x99}: all multiplicities and orders
#[cfg_attr(kani, kani::proof)]
#[cfg_attr(kani, kani::unwind(6))]
pub fn c04_first_match() {
    const N: usize = 64;
    let mut b = Aligned::<N>::any();
    put32(&mut b.0, 0, N as u32);
    let mut i = 0;
    while i < 3 {
        let o = 8 + 16 * i;
        let ty = le32(&b.0, o);
        nd::assume(ty == 4 || ty == 12 || ty == 20 || ty == 0x99);
        put32(&mut b.0, o + 4, 16);
        i += 1;
    }
    put32(&mut b.0, N - 8, 0);
    put32(&mut b.0, N - 4, 8);
    let bi = must_load(&b);
    let base = b.addr();
    let first = |ty: u32| -> Option<usize> {
        let mut i = 0;
        while i < 3 {
            if le32(&b.0, 8 + 16 * i) == ty {
                return Some(base + 8 + 16 * i);
            }
            i += 1;
        }
        None
    };
    let g4 = bi.basic_memory_info_tag().map(|t| t as *const _ as usize);
    let g12 = bi.efi_sdt64_tag().map(|t| t as *const _ as usize);
    let g20 = bi.efi_ih64_tag().map(|t| t as *const _ as usize);
    vassert!(g4 == first(4), "basic_memory_info_tag returns the first type-4 tag in walk order, or nothing");
    vassert!(g12 == first(12), "efi_sdt64_tag returns the first type-12 tag in walk order, or nothing");
    vassert!(g20 == first(20), "efi_ih64_tag returns the first type-20 tag in walk order, or nothing");
    cover!(le32(&b.0, 8) == 12 && le32(&b.0, 40) == 12, "duplicate kind");
    cover!(first(4).is_none(), "absent kind");
}

// @harness props=C04 tier=quick panic=forbid
// @encodes BootInformation::efi_memory_map_tag efi_bs_not_exited_tag (withholding rule)
// @bound EFI map tag (16 bytes, empty map) and a second 8-byte tag of symbolic type in both orders
#[cfg_attr(kani, kani::proof)]
#[cfg_attr(kani, kani::unwind(6))]
pub fn c04_efi_map_withheld() {
    const N: usize = 40;
    let mut b = Aligned::<N>::any();
    put32(&mut b.0, 0, N as u32);
    let map_first = nd::any_bool();
    let (om, oo) = if map_first { (8, 24) } else { (16, 8) };
    put32(&mut b.0, om, 17);
    put32(&mut b.0, om + 4, 16);
    put32(&mut b.0, oo + 4, 8);
    let other = le32(&b.0, oo);
    nd::assume(other != 17);
    put32(&mut b.0, N - 8, 0);
    put32(&mut b.0, N - 4, 8);
    let bi = must_load(&b);
    let m = bi.efi_memory_map_tag();
    cover!(other == 18 && map_first, "boot services tag after the map");
    cover!(other == 18 && !map_first, "boot services tag before the map");
    if other == 18 {
        vassert!(m.is_none(), "EFI memory map is withheld while a boot-services-not-exited tag is present");
        vassert!(bi.efi_bs_not_exited_tag().is_some(), "boot services tag itself is found");
    } else {
        vassert!(m.is_some() && m.unwrap() as *const EFIMemoryMapTag as *const u8 as usize == b.addr() + om, "EFI memory map is returned otherwise");
    }
}

// @harness props=C04 tier=thorough panic=forbid timeout=3000
// @encodes BootInformation::vbe_info_tag VBEInfoTag::{mode,interface_segment,interface_offset,interface_length,control_info,mode_info} and every public field of VBEControlInfo / VBEModeInfo
// @bound one VBE tag (size 784) in an 800-byte region, every byte symbolic except the memory-model byte (0..=7)
// @assume VBE memory-model byte holds a defined value (0..=7)
#[cfg_attr(kani, kani::proof)]
#[cfg_attr(kani, kani::unwind(5))]
pub fn c04_fields_vbe() {
    let b = one_tag_region::<800>(7, 784);
    const C: usize = T + 16; // control info block
    const M: usize = T + 528; // mode info block
    nd::assume(b.0[M + 27] <= 7);
    let bi = must_load(&b);
    let t = bi.vbe_info_tag();
    vassert!(t.is_some(), "vbe tag found");
    let t = t.unwrap();
    vassert!(t.mode() == le16(&b.0, T + 8) && t.interface_segment() == le16(&b.0, T + 10) && t.interface_offset() == le16(&b.0, T + 12) && t.interface_length() == le16(&b.0, T + 14), "mode@8 seg@10 off@12 len@14");
    let c = t.control_info();
    vassert!(c.signature == [b.0[C], b.0[C + 1], b.0[C + 2], b.0[C + 3]], "VbeSignature@0");
    vassert!({ c.version } == le16(&b.0, C + 4) && { c.oem_string_ptr } == le32(&b.0, C + 6), "VbeVersion@4 OemStringPtr@6");
    vassert!({ c.capabilities }.bits() == le32(&b.0, C + 10) && { c.mode_list_ptr } == le32(&b.0, C + 14), "Capabilities@10 VideoModePtr@14");
    vassert!({ c.total_memory } == le16(&b.0, C + 18) && { c.oem_software_revision } == le16(&b.0, C + 20), "TotalMemory@18 OemSoftwareRev@20");
    vassert!({ c.oem_vendor_name_ptr } == le32(&b.0, C + 22) && { c.oem_product_name_ptr } == le32(&b.0, C + 26) && { c.oem_product_revision_ptr } == le32(&b.0, C + 30), "vendor@22 product@26 revision@30");
    let m = t.mode_info();
    vassert!({ m.mode_attributes }.bits() == le16(&b.0, M) && m.window_a_attributes.bits() == b.0[M + 2] && m.window_b_attributes.bits() == b.0[M + 3], "ModeAttributes@0 WinA@2 WinB@3");
    vassert!({ m.window_granularity } == le16(&b.0, M + 4) && { m.window_size } == le16(&b.0, M + 6) && { m.window_a_segment } == le16(&b.0, M + 8) && { m.window_b_segment } == le16(&b.0, M + 10), "granularity@4 size@6 segA@8 segB@10");
    vassert!({ m.window_function_ptr } == le32(&b.0, M + 12) && { m.pitch } == le16(&b.0, M + 16), "WinFuncPtr@12 BytesPerScanLine@16");
    let res = m.resolution;
    vassert!(res.0 == le16(&b.0, M + 18) && res.1 == le16(&b.0, M + 20), "XResolution@18 YResolution@20");
    vassert!(m.character_size.0 == b.0[M + 22] && m.character_size.1 == b.0[M + 23] && m.number_of_planes == b.0[M + 24] && m.bpp == b.0[M + 25] && m.number_of_banks == b.0[M + 26], "char size@22,23 planes@24 bpp@25 banks@26");
    vassert!(m.memory_model as u8 == b.0[M + 27] && m.bank_size == b.0[M + 28] && m.number_of_image_pages == b.0[M + 29], "MemoryModel@27 BankSize@28 ImagePages@29");
    vassert!(m.red_field.size == b.0[M + 31] && m.red_field.position == b.0[M + 32] && m.green_field.size == b.0[M + 33] && m.green_field.position == b.0[M + 34], "red@31,32 green@33,34");
    vassert!(m.blue_field.size == b.0[M + 35] && m.blue_field.position == b.0[M + 36] && m.reserved_field.size == b.0[M + 37] && m.reserved_field.position == b.0[M + 38], "blue@35,36 reserved@37,38");
    vassert!(m.direct_color_attributes.bits() == b.0[M + 39] && { m.framebuffer_base_ptr } == le32(&b.0, M + 40), "DirectColorModeInfo@39 PhysBasePtr@40");
    vassert!({ m.offscreen_memory_offset } == le32(&b.0, M + 44) && { m.offscreen_memory_size } == le16(&b.0, M + 48), "OffScreenMemOffset@44 OffScreenMemSize@48");
}
