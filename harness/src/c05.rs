//! C05 — variable-length tag contents have exactly the extent the tag size
//! implies (and C15's built-in half: same-size cast).

use crate::nd;
use crate::util::*;
use crate::{cover, noreturn, vassert};
use multiboot2::{
    BootLoaderNameTag, CommandLineTag, EFIMemoryMapTag, FramebufferTag, MemoryMapTag, ModuleTag,
    NetworkTag, SmbiosTag, TagHeader,
};
use multiboot2_common::{DynSizedStructure, MaybeDynSized};

pub const OBJ: usize = 80; // tag object; declared sizes 0..=72 leave >= 8 neighbour bytes

/// Boot-information tag of type `typ` at offset 0 of `b`, declared `size`.
pub fn generic_tag<const N: usize>(b: &Aligned<N>, size: usize) -> &DynSizedStructure<TagHeader> {
    DynSizedStructure::<TagHeader>::ref_from_slice(&b.0[..round8(size)]).unwrap()
}

/// Common part: cast to `T`, metadata = (size - fixed) / elem, same address,
/// `size_of_val` = round8(size); sizes below the fixed part or leaving a
/// remainder must not return.
fn dst_extent<T>(typ: u32, fixed: usize, elem: usize) -> Option<(Aligned<OBJ>, usize)>
where
    T: MaybeDynSized<Header = TagHeader, Metadata = usize> + ?Sized,
{
    let mut b = Aligned::<OBJ>::any();
    let size: usize = nd::any();
    nd::assume(size >= 8 && size <= OBJ - 8);
    put32(&mut b.0, 0, typ);
    put32(&mut b.0, 4, size as u32);
    let g = generic_tag(&b, size);
    let t: &T = g.cast::<T>();
    if size < fixed || (size - fixed) % elem != 0 {
        noreturn!("a size below the fixed part or leaving a remainder must be rejected by a panic");
    }
    let n = (size - fixed) / elem;
    cover!(size == fixed, "empty variable part");
    cover!(n == 2, "two elements");
    cover!(elem != 1 || size % 8 == 5, "padded size");
    vassert!(t as *const T as *const u8 as usize == b.addr(), "typed view starts at the tag's address");
    vassert!(ptr_meta::metadata(t as *const T) == n, "element count is (size - fixed part) / element size");
    vassert!(core::mem::size_of_val(t) == round8(size), "typed view is exactly as large as the tag rounded up to 8");
    Some((b, size))
}

// @harness props=C05,C15,C08 tier=quick panic=allow
// @encodes DynSizedStructure::<TagHeader>::cast::<CommandLineTag> CommandLineTag::dst_len BootLoaderNameTag::dst_len cast::<BootLoaderNameTag>
// @bound declared size 8..=72 (all residues), tag contents symbolic, >= 8 neighbour bytes
#[cfg_attr(kani, kani::proof)]
pub fn c05_string_tags() {
    if nd::any_bool() {
        let _ = dst_extent::<CommandLineTag>(1, 8, 1);
    } else {
        let _ = dst_extent::<BootLoaderNameTag>(2, 8, 1);
    }
}

// @harness props=C05,C15,C08 tier=quick panic=allow
// @encodes cast::<ModuleTag> ModuleTag::dst_len
// @bound declared size 8..=72
#[cfg_attr(kani, kani::proof)]
pub fn c05_module() {
    let _ = dst_extent::<ModuleTag>(3, 16, 1);
}

// @harness props=C05,C15,C08 tier=quick panic=allow
// @encodes cast::<MemoryMapTag> MemoryMapTag::dst_len MemoryMapTag::memory_areas
// @bound declared size 8..=72 (0..=2 areas of 24 bytes)
#[cfg_attr(kani, kani::proof)]
pub fn c05_mmap() {
    if let Some((b, size)) = dst_extent::<MemoryMapTag>(6, 16, 24) {
        let t = generic_tag(&b, size).cast::<MemoryMapTag>();
        if t.entry_size() == 24 {
            let a = t.memory_areas();
            vassert!(a.as_ptr() as usize == b.addr() + 16, "areas start at the fixed offset 16");
            vassert!(a.len() == (size - 16) / 24, "area count");
            if a.len() == 2 {
                vassert!(a[1].start_address() == le64(&b.0, 40), "second area decodes from offset 40");
            }
        }
    }
}

// @harness props=C05,C15,C08 tier=quick panic=allow
// @encodes cast::<SmbiosTag> SmbiosTag::dst_len SmbiosTag::tables
// @bound declared size 8..=72
#[cfg_attr(kani, kani::proof)]
pub fn c05_smbios() {
    if let Some((b, size)) = dst_extent::<SmbiosTag>(13, 16, 1) {
        let t = generic_tag(&b, size).cast::<SmbiosTag>();
        let x = t.tables();
        vassert!(x.as_ptr() as usize == b.addr() + 16, "tables start at the fixed offset 16");
        vassert!(x.len() == size - 16, "tables end at the declared size");
    }
}

// @harness props=C05,C15,C08 tier=quick panic=allow
// @encodes cast::<EFIMemoryMapTag> EFIMemoryMapTag::dst_len cast::<NetworkTag> NetworkTag::dst_len cast::<FramebufferTag> FramebufferTag::dst_len
// @bound declared size 8..=72
#[cfg_attr(kani, kani::proof)]
pub fn c05_efi_net_fb() {
    let k: u8 = nd::any();
    if k == 0 {
        let _ = dst_extent::<EFIMemoryMapTag>(17, 16, 1);
    } else if k == 1 {
        let _ = dst_extent::<NetworkTag>(16, 8, 1);
    } else {
        let _ = dst_extent::<FramebufferTag>(8, 32, 1);
    }
}

// @harness props=C05,C15,C08 tier=quick panic=allow
// @encodes cast::<DynSizedStructure<TagHeader>> (generic payload) payload()
// @bound declared size 8..=72
#[cfg_attr(kani, kani::proof)]
pub fn c05_generic() {
    if let Some((b, size)) = dst_extent::<DynSizedStructure<TagHeader>>(0x1234, 8, 1) {
        let t = generic_tag(&b, size).cast::<DynSizedStructure<TagHeader>>();
        vassert!(t.payload().as_ptr() as usize == b.addr() + 8 && t.payload().len() == size - 8, "generic payload is bytes 8..size");
    }
}

// @harness props=C05,C15,C09,C08 tier=quick panic=allow
// @encodes DynSizedStructure::<HeaderTagHeader>::cast::<InformationRequestHeaderTag> InformationRequestHeaderTag::dst_len requests()
// @bound declared size 8..=72 (0..=16 requests); flags <= 1
// @assume enumerated header-tag fields hold defined values
#[cfg_attr(kani, kani::proof)]
pub fn c05_information_request() {
    use multiboot2_header::{HeaderTagHeader, InformationRequestHeaderTag};
    let mut b = Aligned::<OBJ>::any();
    let size: usize = nd::any();
    nd::assume(size >= 8 && size <= OBJ - 8);
    put16(&mut b.0, 0, 1);
    nd::assume(le16(&b.0, 2) <= 1);
    put32(&mut b.0, 4, size as u32);
    let g = DynSizedStructure::<HeaderTagHeader>::ref_from_slice(&b.0[..round8(size)]).unwrap();
    let t = g.cast::<InformationRequestHeaderTag>();
    if (size - 8) % 4 != 0 {
        noreturn!("a size leaving a remainder must be rejected by a panic");
    }
    let n = (size - 8) / 4;
    let r = t.requests();
    cover!(n == 0, "no request");
    cover!(n == 3, "three requests (padded tag)");
    vassert!(t as *const InformationRequestHeaderTag as *const u8 as usize == b.addr(), "same address");
    vassert!(r.as_ptr() as usize == b.addr() + 8, "requests start at the fixed offset 8");
    vassert!(r.len() == n, "request count is (size - 8) / 4");
    vassert!(core::mem::size_of_val(t) == round8(size), "view is as large as the tag rounded up to 8");
    if n >= 1 {
        vassert!(u32::from(r[n - 1]) == le32(&b.0, 8 + 4 * (n - 1)), "last request decodes from its offset");
    }
}

// @harness props=C05 tier=quick panic=allow must_panic=yes
// @encodes DynSizedStructure::<TagHeader>::ref_from_slice / payload() with a declared size below the fixed part of the generic tag (8)
// @bound declared size 1..=7, 8-byte slice, contents symbolic
#[cfg_attr(kani, kani::proof)]
pub fn c05_generic_small() {
    let mut b = Aligned::<16>::any();
    let size: usize = nd::any();
    nd::assume(size >= 1 && size <= 7);
    put32(&mut b.0, 4, size as u32);
    if let Ok(t) = DynSizedStructure::<TagHeader>::ref_from_slice(&b.0[..8]) {
        let _ = t.payload().len();
        noreturn!("a generic tag whose size is below its fixed part must be rejected, not handed out");
    }
}
