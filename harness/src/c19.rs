//! C19 — ELF-section iteration decodes 32/64-bit entries in order, inside the
//! tag.  The iterator is driven from an arbitrary state through the
//! `cfg(multiboot2_verif)` hook (Kani cannot compile `ElfSectionsTag` itself);
//! `ElfSectionsTag::sections()` is decided by the MIR engine.
#![cfg(multiboot2_verif)]

use crate::nd;
use crate::util::*;
use crate::{cover, noreturn, vassert};
use multiboot2::{ElfSection, ElfSectionFlags, ElfSectionIter, ElfSectionType};

/// Documented classification of raw section types.
pub fn spec_type(raw: u32) -> ElfSectionType {
    match raw {
        0 => ElfSectionType::Unused,
        1 => ElfSectionType::ProgramSection,
        2 => ElfSectionType::LinkerSymbolTable,
        3 => ElfSectionType::StringTable,
        4 => ElfSectionType::RelaRelocation,
        5 => ElfSectionType::SymbolHashTable,
        6 => ElfSectionType::DynamicLinkingTable,
        7 => ElfSectionType::Note,
        8 => ElfSectionType::Uninitialized,
        9 => ElfSectionType::RelRelocation,
        10 => ElfSectionType::Reserved,
        11 => ElfSectionType::DynamicLoaderSymbolTable,
        x if x >= 0x6000_0000 && x <= 0x6FFF_FFFF => ElfSectionType::EnvironmentSpecific,
        x if x >= 0x7000_0000 && x <= 0x7FFF_FFFF => ElfSectionType::ProcessorSpecific,
        _ => ElfSectionType::Unused,
    }
}

/// Entry `i` of the area decoded per the ELF32 / ELF64 section header layout:
/// (type, flags, addr, size, addralign)
fn spec_entry(b: &[u8], off: usize, esz: usize) -> (u32, u64, u64, u64, u64) {
    if esz == 40 {
        (le32(b, off + 4), le32(b, off + 8) as u64, le32(b, off + 12) as u64, le32(b, off + 20) as u64, le32(b, off + 32) as u64)
    } else {
        (le32(b, off + 4), le64(b, off + 8), le64(b, off + 16), le64(b, off + 32), le64(b, off + 48))
    }
}

fn check_section(s: &ElfSection, b: &[u8], off: usize, esz: usize) {
    let (ty, fl, addr, size, al) = spec_entry(b, off, esz);
    vassert!(s.section_type_raw() == ty, "raw type decoded from the entry's layout");
    vassert!(s.section_type() == spec_type(ty), "type classification");
    vassert!(s.flags() == ElfSectionFlags::from_bits_truncate(fl), "flags decoded from the entry's layout");
    vassert!(s.is_allocated() == (fl & 2 != 0), "allocated flag");
    vassert!(s.start_address() == addr && s.size() == size && s.addralign() == al, "address, size, alignment decoded from the entry's layout");
    if addr.checked_add(size).is_some() {
        vassert!(s.end_address() == addr + size, "end address");
    }
}

/// From ANY iterator state inside an area of exactly `AREA = CNT * ESZ` bytes
/// (current = entry k, remaining = CNT - k): the rest of the walk yields
/// exactly the in-use entries k.., in order, decoded from their own bytes.
fn walk<const AREA: usize, const CNT: usize, const ESZ: usize>() {
    let b = Aligned::<AREA>::any();
    let k: usize = nd::any();
    nd::assume(k <= CNT);
    let base = b.0.as_ptr();
    let strtab_idx: usize = nd::any();
    nd::assume(strtab_idx < CNT);
    let mut it = unsafe {
        ElfSectionIter::__verif_from_parts(base.add(k * ESZ), (CNT - k) as u32, ESZ as u32, base.add(strtab_idx * ESZ))
    };
    vassert!(it.len() == CNT - k, "len() is the number of entries left");
    let mut i = k;
    let mut yielded = 0;
    while i < CNT {
        let (ty, ..) = spec_entry(&b.0, i * ESZ, ESZ);
        if spec_type(ty) != ElfSectionType::Unused {
            let s = it.next();
            vassert!(s.is_some(), "every in-use entry is yielded");
            check_section(&s.unwrap(), &b.0, i * ESZ, ESZ);
            let (cur, rem, esz, st) = it.__verif_parts();
            vassert!(cur as usize == base as usize + (i + 1) * ESZ && rem as usize == CNT - i - 1, "iterator state stays inside the area: current = entry i+1, remaining = n-i-1");
            vassert!(esz as usize == ESZ && st as usize == base as usize + strtab_idx * ESZ, "entry size and string-table pointer unchanged");
            yielded += 1;
        }
        i += 1;
    }
    vassert!(it.next().is_none(), "nothing but the in-use entries is yielded");
    vassert!(it.next().is_none(), "stays exhausted");
    cover!(yielded == CNT && k == 0, "all entries in use");
    cover!(yielded == 0 && k == 0, "all entries unused");
    cover!(k == 1 && yielded == 1, "walk from a mid state");
}

// @harness props=C19,C01,C08 tier=quick panic=forbid
// @encodes multiboot2::ElfSectionIter::{next,len} ElfSection::{get,section_type,section_type_raw,flags,is_allocated,start_address,size,addralign,end_address} ElfSectionInner32 (via &dyn)
// @bound section area = exact 120-byte object (3 entries of 40 bytes), every entry byte symbolic, iterator started at a symbolic entry index
#[cfg_attr(kani, kani::proof)]
#[cfg_attr(kani, kani::unwind(5))]
pub fn c19_walk_elf32() {
    walk::<120, 3, 40>();
}

// @harness props=C19,C01,C08 tier=quick panic=forbid
// @encodes as c19_walk_elf32 with ElfSectionInner64
// @bound section area = exact 128-byte object (2 entries of 64 bytes)
#[cfg_attr(kani, kani::proof)]
#[cfg_attr(kani, kani::unwind(4))]
pub fn c19_walk_elf64() {
    walk::<128, 2, 64>();
}

// @harness props=C19 tier=thorough panic=forbid
// @encodes as c19_walk_elf64
// @bound 4 entries of 64 bytes
#[cfg_attr(kani, kani::proof)]
#[cfg_attr(kani, kani::unwind(6))]
pub fn c19_walk_elf64_4() {
    walk::<256, 4, 64>();
}

// @harness props=C19,C08 tier=quick panic=allow must_panic=yes
// @encodes ElfSectionIter::next ElfSection::get with an entry size other than 40 / 64
// @bound entry size symbolic in 0..=128 excluding 40 and 64, 1..=3 entries inside a 128-byte area
#[cfg_attr(kani, kani::proof)]
#[cfg_attr(kani, kani::unwind(5))]
pub fn c19_bad_entry_size() {
    let b = Aligned::<128>::any();
    let esz: u32 = nd::any();
    let n: u32 = nd::any();
    nd::assume(esz <= 128 && esz != 40 && esz != 64);
    nd::assume(n >= 1 && n <= 3 && (n * esz) as usize <= 128);
    let base = b.0.as_ptr();
    let mut it = unsafe { ElfSectionIter::__verif_from_parts(base, n, esz, base) };
    cover!(esz == 0, "zero entry size");
    cover!(esz == 41, "odd entry size");
    let _ = it.next();
    noreturn!("an entry size other than 40 or 64 must be rejected by a panic");
}

// @harness props=C20,C19 tier=quick panic=forbid
// @encodes multiboot2::ElfSection::section_type section_type_raw (classification of all raw types)
// @bound all 2^32 raw type values, both entry layouts
#[cfg_attr(kani, kani::proof)]
#[cfg_attr(kani, kani::unwind(3))]
pub fn c20_elf_section_type() {
    let mut b = Aligned::<64>::any();
    let raw: u32 = nd::any();
    put32(&mut b.0, 4, raw);
    let esz = if nd::any_bool() { 40u32 } else { 64 };
    let base = b.0.as_ptr();
    let mut it = unsafe { ElfSectionIter::__verif_from_parts(base, 1, esz, base) };
    let s = it.next();
    let spec = spec_type(raw);
    let in_use = (raw >= 1 && raw <= 11) || (raw >= 0x6000_0000 && raw <= 0x7FFF_FFFF);
    vassert!((spec != ElfSectionType::Unused) == in_use, "in-use raw types are 1..=11 and 0x6000_0000..=0x7FFF_FFFF");
    vassert!(s.is_some() == in_use, "a section is yielded iff its raw type is in use");
    if let Some(s) = s {
        vassert!(s.section_type() == spec && s.section_type_raw() == raw, "classification matches the documented values and ranges");
    }
    cover!(raw == 0x5FFF_FFFF, "below the environment range");
    cover!(raw == 0x6000_0000, "first environment-specific");
    cover!(raw == 0x6FFF_FFFF, "last environment-specific");
    cover!(raw == 0x7000_0000, "first processor-specific");
    cover!(raw == 0x7FFF_FFFF, "last processor-specific");
    cover!(raw == 0x8000_0000, "above the processor range");
    cover!(raw == 12, "first unknown small value");
}
