//! C09 — header parsing never reads outside the declared header;
//! C11 — header accessors and typed getters decode the specified fields.

use crate::nd;
use crate::util::*;
use crate::{cover, noreturn, vassert};
use multiboot2_common::MaybeDynSized;
use multiboot2_header::*;

pub const HMAGIC: u32 = 0xE852_50D6;

/// Symbolic header region of exactly `N` bytes with valid magic, length = N
/// and a matching checksum; architecture in {0, 4}.
pub fn header_region<const N: usize>() -> Aligned<N> {
    let mut b = Aligned::<N>::any();
    put32(&mut b.0, 0, HMAGIC);
    let arch = le32(&b.0, 4);
    nd::assume(arch == 0 || arch == 4);
    put32(&mut b.0, 8, N as u32);
    put32(&mut b.0, 12, 0u32.wrapping_sub(HMAGIC).wrapping_sub(arch).wrapping_sub(N as u32));
    b
}

/// The property's precondition: along the spec walk every visited tag has a
/// defined type (<= 10) and flags (<= 1), console flags <= 1, relocation
/// preference <= 2.  Returns Some(k) if the walk tiles the region with k tags.
pub fn assume_defined_enums<const N: usize>(b: &Aligned<N>) -> Option<usize> {
    let mut off = 16usize;
    let mut k = 0;
    while off < N {
        let typ = le16(&b.0, off);
        let flags = le16(&b.0, off + 2);
        let size = le32(&b.0, off + 4) as usize;
        nd::assume(typ <= 10 && flags <= 1);
        if size < 8 || size > N - off {
            return None;
        }
        if typ == 4 && size >= 12 {
            nd::assume(le32(&b.0, off + 8) <= 1);
        }
        if typ == 10 && size >= 24 {
            nd::assume(le32(&b.0, off + 20) <= 2);
        }
        off += round8(size);
        k += 1;
    }
    Some(k)
}

pub fn hload<const N: usize>(b: &Aligned<N>) -> Option<Multiboot2Header<'_>> {
    unsafe { Multiboot2Header::load(b.0.as_ptr().cast::<Multiboot2BasicHeader>()) }.ok()
}

fn ext<T: MaybeDynSized<Header = HeaderTagHeader> + ?Sized, const N: usize>(t: &T, b: &Aligned<N>) -> (usize, usize) {
    let a = t as *const T as *const u8 as usize;
    let size = t.header().size() as usize;
    vassert!(inside(a, round8(size), b.addr() + 16, N - 16), "the tag handed out lies inside the declared header");
    vassert!(core::mem::size_of_val(t) == round8(size), "typed view is as large as the tag");
    (a, size)
}

// @harness props=C09,C08 tier=quick panic=allow
// @encodes multiboot2_header::Multiboot2Header::{load,iter,verify_checksum,header_magic,arch,length,checksum} TagIter::<HeaderTagHeader>::next HeaderTagHeader::payload_len
// @bound fully symbolic 56-byte header (length = 56, up to 5 tags), enumerated fields defined along the spec walk
// @assume architecture, tag type, tag flags, console flags, relocation preference hold defined values (the property's precondition)
#[cfg_attr(kani, kani::proof)]
#[cfg_attr(kani, kani::unwind(8))]
pub fn c09_walk_56() {
    walk::<56>();
}

// @harness props=C09 tier=thorough panic=allow timeout=1800
// @encodes as c09_walk_56
// @bound fully symbolic 72-byte header (up to 7 tags)
// @assume architecture, tag type, tag flags, console flags, relocation preference hold defined values (the property's precondition)
#[cfg_attr(kani, kani::proof)]
#[cfg_attr(kani, kani::unwind(10))]
pub fn c09_walk_72() {
    walk::<72>();
}

fn walk<const N: usize>() {
    let b = header_region::<N>();
    let _ = assume_defined_enums(&b);
    let h = match hload(&b) {
        Some(h) => h,
        None => {
            vassert!(false, "a header with valid magic, length and checksum must load");
            return;
        }
    };
    let _ = (h.header_magic(), h.arch(), h.length(), h.checksum(), h.verify_checksum());
    let mut n = 0;
    for t in h.iter() {
        let a = t as *const _ as *const u8 as usize;
        let p = t.payload();
        vassert!(inside(a, 8 + p.len(), b.addr() + 16, N - 16), "tag lies inside the header's tag area");
        let _ = (t.header().typ(), t.header().flags(), t.header().size());
        if let (Some(x), Some(y)) = (p.first(), p.last()) {
            let _ = *x ^ *y;
        }
        n += 1;
    }
    cover!(n == 3, "three tags walked");
}

// @harness props=C09 tier=quick panic=allow must_panic=yes
// @encodes Multiboot2Header::iter TagIter::<HeaderTagHeader>::next HeaderTagHeader::payload_len on headers whose tag walk meets a size below 8 or leaves the declared length
// @bound fully symbolic 56-byte header with defined enumerated fields whose spec walk does NOT tile the tag area
// @assume architecture, tag type, tag flags, console flags, relocation preference hold defined values (the property's precondition)
#[cfg_attr(kani, kani::proof)]
#[cfg_attr(kani, kani::unwind(8))]
pub fn c09_walk_invalid_56() {
    const N: usize = 56;
    let b = header_region::<N>();
    nd::assume(assume_defined_enums(&b).is_none());
    let h = match hload(&b) {
        Some(h) => h,
        None => return,
    };
    let mut it = h.iter();
    let mut i = 0;
    while i < N / 8 {
        if it.next().is_none() {
            break;
        }
        i += 1;
    }
    noreturn!("a malformed tag size must lead to an error or a controlled panic, not to a completed walk");
}

macro_rules! getter_harness {
    ($fname:ident, $getter:ident, |$t:ident| $acc:expr) => {
        #[cfg_attr(kani, kani::proof)]
        #[cfg_attr(kani, kani::unwind(8))]
        pub fn $fname() {
            const N: usize = 56;
            let b = header_region::<N>();
            let _ = assume_defined_enums(&b);
            let h = match hload(&b) {
                Some(h) => h,
                None => return,
            };
            if let Some($t) = h.$getter() {
                ext($t, &b);
                let _ = $acc;
                cover!(true, "tag found");
            }
        }
    };
}

// @harness props=C09 tier=quick panic=allow
// @encodes Multiboot2Header::address_tag get_tag cast::<AddressHeaderTag> and all accessors
// @bound fully symbolic 56-byte header, defined enumerated fields
#[rustfmt::skip]
getter_harness!(c09_get_address, address_tag, |t| (t.typ(), t.flags(), t.size(), t.header_addr(), t.load_addr(), t.load_end_addr(), t.bss_end_addr()));

// @harness props=C09 tier=quick panic=allow
// @encodes Multiboot2Header::entry_address_tag entry_address_efi32_tag entry_address_efi64_tag (one harness each would be identical code paths; efi32/efi64 below)
// @bound fully symbolic 56-byte header, defined enumerated fields
#[rustfmt::skip]
getter_harness!(c09_get_entry, entry_address_tag, |t| (t.typ(), t.flags(), t.size(), t.entry_addr()));

// @harness props=C09 tier=quick panic=allow
// @encodes Multiboot2Header::entry_address_efi32_tag
// @bound fully symbolic 56-byte header, defined enumerated fields
#[rustfmt::skip]
getter_harness!(c09_get_efi32, entry_address_efi32_tag, |t| (t.typ(), t.flags(), t.size(), t.entry_addr()));

// @harness props=C09 tier=quick panic=allow
// @encodes Multiboot2Header::entry_address_efi64_tag
// @bound fully symbolic 56-byte header, defined enumerated fields
#[rustfmt::skip]
getter_harness!(c09_get_efi64, entry_address_efi64_tag, |t| (t.typ(), t.flags(), t.size(), t.entry_addr()));

// @harness props=C09 tier=quick panic=allow
// @encodes Multiboot2Header::console_flags_tag
// @bound fully symbolic 56-byte header, defined enumerated fields
#[rustfmt::skip]
getter_harness!(c09_get_console, console_flags_tag, |t| (t.typ(), t.flags(), t.size(), t.console_flags()));

// @harness props=C09 tier=quick panic=allow
// @encodes Multiboot2Header::framebuffer_tag
// @bound fully symbolic 56-byte header, defined enumerated fields
#[rustfmt::skip]
getter_harness!(c09_get_framebuffer, framebuffer_tag, |t| (t.typ(), t.flags(), t.size(), t.width(), t.height(), t.depth()));

// @harness props=C09 tier=quick panic=allow
// @encodes Multiboot2Header::module_align_tag efi_boot_services_tag
// @bound fully symbolic 56-byte header, defined enumerated fields
#[rustfmt::skip]
getter_harness!(c09_get_module_align, module_align_tag, |t| (t.typ(), t.flags(), t.size()));

// @harness props=C09 tier=quick panic=allow
// @encodes Multiboot2Header::efi_boot_services_tag
// @bound fully symbolic 56-byte header, defined enumerated fields
#[rustfmt::skip]
getter_harness!(c09_get_efi_bs, efi_boot_services_tag, |t| (t.typ(), t.flags(), t.size()));

// @harness props=C09 tier=quick panic=allow
// @encodes Multiboot2Header::relocatable_tag
// @bound fully symbolic 56-byte header, defined enumerated fields
#[rustfmt::skip]
getter_harness!(c09_get_relocatable, relocatable_tag, |t| (t.typ(), t.flags(), t.size(), t.min_addr(), t.max_addr(), t.align(), t.preference()));

// @harness props=C09,C08 tier=quick panic=allow
// @encodes Multiboot2Header::information_request_tag InformationRequestHeaderTag::{requests,dst_len}
// @bound fully symbolic 56-byte header (up to 8 requests), defined enumerated fields
#[cfg_attr(kani, kani::proof)]
#[cfg_attr(kani, kani::unwind(10))]
pub fn c09_get_information_request() {
    const N: usize = 56;
    let b = header_region::<N>();
    let _ = assume_defined_enums(&b);
    let h = match hload(&b) {
        Some(h) => h,
        None => return,
    };
    if let Some(t) = h.information_request_tag() {
        let (a, size) = ext(t, &b);
        let r = t.requests();
        vassert!(inside(r.as_ptr() as usize, r.len() * 4, a, size), "request list lies inside the tag");
        let mut s = 0u32;
        for x in r {
            s ^= u32::from(*x);
        }
        cover!(r.len() == 2, "two requests");
    }
}

// ---------------------------------------------------------------------------
// C11
// ---------------------------------------------------------------------------

// @harness props=C11,C08 tier=quick panic=forbid
// @encodes Multiboot2Header::iter TagIter::<HeaderTagHeader>::next on valid headers (lock-step with the spec walk from offset 16)
// @bound 56-byte header whose tag walk tiles the region (<= 5 tags), tag headers fully symbolic within defined enumerated values
// @assume enumerated fields defined; the header is valid (walk tiles the declared length)
#[cfg_attr(kani, kani::proof)]
#[cfg_attr(kani, kani::unwind(8))]
pub fn c11_walk_valid_56() {
    walk_valid::<56>();
}

// @harness props=C11 tier=thorough panic=forbid timeout=1800
// @encodes as c11_walk_valid_56
// @bound 72-byte header whose tag walk tiles the region (<= 7 tags)
// @assume enumerated fields defined; the header is valid (walk tiles the declared length)
#[cfg_attr(kani, kani::proof)]
#[cfg_attr(kani, kani::unwind(10))]
pub fn c11_walk_valid_72() {
    walk_valid::<72>();
}

fn walk_valid<const N: usize>() {
    let b = header_region::<N>();
    let k = assume_defined_enums(&b);
    nd::assume(k.is_some());
    let h = match hload(&b) {
        Some(h) => h,
        None => {
            vassert!(false, "valid header must load");
            return;
        }
    };
    vassert!(h.header_magic() == HMAGIC && h.arch() as u32 == le32(&b.0, 4) && h.length() == N as u32 && h.checksum() == le32(&b.0, 12), "accessors return the stored magic, architecture, length, checksum");
    let mut it = h.iter();
    let mut off = 16usize;
    let mut n = 0;
    while off < N {
        let size = le32(&b.0, off + 4) as usize;
        let t = it.next();
        vassert!(t.is_some(), "iterator yields a tag wherever the spec walk finds one");
        let t = t.unwrap();
        vassert!(t as *const _ as *const u8 as usize == b.addr() + off, "tag is located at the walk's offset");
        vassert!(t.header().typ() as u16 == le16(&b.0, off) && t.header().flags() as u16 == le16(&b.0, off + 2) && t.header().size() as usize == size, "stored type, flags, size");
        vassert!(t.payload().len() == size - 8, "payload is size - 8 bytes");
        off += round8(size);
        n += 1;
    }
    vassert!(it.next().is_none() && it.next().is_none(), "walk ends at the declared length and stays exhausted");
    vassert!(Some(n) == k, "walk length");
    cover!(n == (N - 16) / 8, "as many tags as fit");
    cover!(n == 2 && le32(&b.0, 20) == 12, "padded tag");
}

/// `[basic header 16][one tag: typ, flags symbolic, size][end tag]`
fn one_htag<const N: usize>(typ: u16, size: u32) -> Aligned<N> {
    let mut b = header_region::<N>();
    put16(&mut b.0, 16, typ);
    nd::assume(le16(&b.0, 18) <= 1);
    put32(&mut b.0, 20, size);
    put16(&mut b.0, N - 8, 0);
    put16(&mut b.0, N - 6, 0);
    put32(&mut b.0, N - 4, 8);
    b
}

fn must_hload<const N: usize>(b: &Aligned<N>) -> Multiboot2Header<'_> {
    match hload(b) {
        Some(h) => h,
        None => panic!("valid header must load"),
    }
}

const H: usize = 16; // offset of the first tag

// @harness props=C11 tier=quick panic=forbid
// @encodes Multiboot2Header::{address_tag,entry_address_tag,entry_address_efi32_tag,entry_address_efi64_tag,framebuffer_tag} and every field accessor
// @bound one conformant tag per header, every field byte symbolic
#[cfg_attr(kani, kani::proof)]
#[cfg_attr(kani, kani::unwind(5))]
pub fn c11_fields_a() {
    let k: u8 = nd::any();
    match k {
        0 => {
            let b = one_htag::<48>(2, 24);
            let h = must_hload(&b);
            let t = h.address_tag();
            vassert!(t.is_some(), "address tag found");
            let t = t.unwrap();
            vassert!(t.typ() as u16 == 2 && t.flags() as u16 == le16(&b.0, H + 2) && t.size() == 24, "type, flags, size");
            vassert!(t.header_addr() == le32(&b.0, H + 8) && t.load_addr() == le32(&b.0, H + 12) && t.load_end_addr() == le32(&b.0, H + 16) && t.bss_end_addr() == le32(&b.0, H + 20), "header_addr@8 load_addr@12 load_end_addr@16 bss_end_addr@20");
            vassert!(h.entry_address_tag().is_none() && h.relocatable_tag().is_none(), "other getters find nothing");
        }
        1 => {
            let b = one_htag::<40>(3, 12);
            let h = must_hload(&b);
            let t = h.entry_address_tag();
            vassert!(t.is_some() && t.unwrap().entry_addr() == le32(&b.0, H + 8) && t.unwrap().size() == 12, "entry_addr@8");
            vassert!(h.entry_address_efi32_tag().is_none() && h.entry_address_efi64_tag().is_none(), "no cross-talk");
        }
        2 => {
            let b = one_htag::<40>(8, 12);
            let h = must_hload(&b);
            let t = h.entry_address_efi32_tag();
            vassert!(t.is_some() && t.unwrap().entry_addr() == le32(&b.0, H + 8) && t.unwrap().typ() as u16 == 8, "EFI i386 entry_addr@8");
            vassert!(h.entry_address_tag().is_none(), "no cross-talk");
        }
        3 => {
            let b = one_htag::<40>(9, 12);
            let h = must_hload(&b);
            let t = h.entry_address_efi64_tag();
            vassert!(t.is_some() && t.unwrap().entry_addr() == le32(&b.0, H + 8) && t.unwrap().typ() as u16 == 9, "EFI amd64 entry_addr@8");
        }
        _ => {
            let b = one_htag::<48>(5, 20);
            let h = must_hload(&b);
            let t = h.framebuffer_tag();
            vassert!(t.is_some(), "framebuffer tag found");
            let t = t.unwrap();
            vassert!(t.width() == le32(&b.0, H + 8) && t.height() == le32(&b.0, H + 12) && t.depth() == le32(&b.0, H + 16) && t.flags() as u16 == le16(&b.0, H + 2), "width@8 height@12 depth@16");
            cover!(true, "framebuffer decoded");
        }
    }
}

// @harness props=C11 tier=quick panic=forbid
// @encodes Multiboot2Header::{console_flags_tag,module_align_tag,efi_boot_services_tag,relocatable_tag,information_request_tag} and every field accessor; EndHeaderTag via iter
// @bound one conformant tag per header, every field byte symbolic; information request with 0..=5 requests
#[cfg_attr(kani, kani::proof)]
#[cfg_attr(kani, kani::unwind(8))]
pub fn c11_fields_b() {
    let k: u8 = nd::any();
    match k {
        0 => {
            let b = one_htag::<40>(4, 12);
            nd::assume(le32(&b.0, H + 8) <= 1);
            let h = must_hload(&b);
            let t = h.console_flags_tag();
            vassert!(t.is_some() && t.unwrap().console_flags() as u32 == le32(&b.0, H + 8) && t.unwrap().size() == 12, "console_flags@8");
        }
        1 => {
            let b = one_htag::<32>(6, 8);
            let h = must_hload(&b);
            let t = h.module_align_tag();
            vassert!(t.is_some() && t.unwrap().typ() as u16 == 6 && t.unwrap().flags() as u16 == le16(&b.0, H + 2) && t.unwrap().size() == 8, "module alignment tag");
            vassert!(h.efi_boot_services_tag().is_none(), "no cross-talk");
        }
        2 => {
            let b = one_htag::<32>(7, 8);
            let h = must_hload(&b);
            let t = h.efi_boot_services_tag();
            vassert!(t.is_some() && t.unwrap().typ() as u16 == 7 && t.unwrap().size() == 8, "EFI boot services tag");
            vassert!(h.module_align_tag().is_none(), "no cross-talk");
        }
        3 => {
            let b = one_htag::<48>(10, 24);
            nd::assume(le32(&b.0, H + 20) <= 2);
            let h = must_hload(&b);
            let t = h.relocatable_tag();
            vassert!(t.is_some(), "relocatable tag found");
            let t = t.unwrap();
            vassert!(t.min_addr() == le32(&b.0, H + 8) && t.max_addr() == le32(&b.0, H + 12) && t.align() == le32(&b.0, H + 16) && t.preference() as u32 == le32(&b.0, H + 20), "min_addr@8 max_addr@12 align@16 preference@20");
        }
        _ => {
            const N: usize = 56;
            let mut b = header_region::<N>();
            let n: usize = nd::any();
            nd::assume(n <= 5);
            let size = 8 + 4 * n;
            put16(&mut b.0, 16, 1);
            nd::assume(le16(&b.0, 18) <= 1);
            put32(&mut b.0, 20, size as u32);
            // the rest up to the end tag is one filler tag (module alignment, size = remaining) if any
            let rest = N - 8 - 16 - round8(size);
            if rest > 0 {
                let o = 16 + round8(size);
                put16(&mut b.0, o, 6);
                nd::assume(le16(&b.0, o + 2) <= 1);
                put32(&mut b.0, o + 4, rest as u32);
            }
            put16(&mut b.0, N - 8, 0);
            put16(&mut b.0, N - 6, 0);
            put32(&mut b.0, N - 4, 8);
            let h = must_hload(&b);
            let t = h.information_request_tag();
            vassert!(t.is_some(), "information request found");
            let t = t.unwrap();
            let r = t.requests();
            vassert!(r.len() == n && t.size() as usize == size, "request count = (size - 8) / 4");
            let mut i = 0;
            let mut same = true;
            while i < n {
                same &= u32::from(r[i]) == le32(&b.0, H + 8 + 4 * i);
                i += 1;
            }
            vassert!(same, "requests decode from offset 8 + 4i");
            cover!(n == 5, "five requests");
            cover!(n == 0, "empty list");
        }
    }
}

// @harness props=C11 tier=quick panic=forbid
// @encodes Multiboot2Header::get_tag (Iterator::find over the header's TagIter): first match, absence
// @bound three 8-byte tags at offsets 16, 24, 32 with symbolic types out of {6, 7, 0(end)}: all multiplicities and orders
#[cfg_attr(kani, kani::proof)]
#[cfg_attr(kani, kani::unwind(7))]
pub fn c11_first_match() {
    const N: usize = 48;
    let mut b = header_region::<N>();
    let mut i = 0;
    while i < 3 {
        let o = 16 + 8 * i;
        let ty = le16(&b.0, o);
        nd::assume(ty == 6 || ty == 7 || ty == 0);
        nd::assume(le16(&b.0, o + 2) <= 1);
        put32(&mut b.0, o + 4, 8);
        i += 1;
    }
    put16(&mut b.0, N - 8, 0);
    put16(&mut b.0, N - 6, 0);
    put32(&mut b.0, N - 4, 8);
    let h = must_hload(&b);
    let base = b.addr();
    let first = |ty: u16| -> Option<usize> {
        let mut i = 0;
        while i < 3 {
            if le16(&b.0, 16 + 8 * i) == ty {
                return Some(base + 16 + 8 * i);
            }
            i += 1;
        }
        None
    };
    let g6 = h.module_align_tag().map(|t| t as *const _ as usize);
    let g7 = h.efi_boot_services_tag().map(|t| t as *const _ as usize);
    vassert!(g6 == first(6), "module_align_tag returns the first type-6 tag in walk order, or nothing");
    vassert!(g7 == first(7), "efi_boot_services_tag returns the first type-7 tag in walk order, or nothing");
    vassert!(h.address_tag().is_none() && h.information_request_tag().is_none(), "absent kinds yield nothing");
    cover!(le16(&b.0, 16) == 6 && le16(&b.0, 32) == 6, "duplicate kind");
    cover!(first(7).is_none(), "absent kind");
}
