//! C07 — every tag constructor emits the spec-exact binary image.
//!
//! Offsets, widths, type numbers and sizes below are transcribed from the
//! Multiboot2 specification (sections 3.1.x header tags, 3.6.x boot
//! information tags), independently of the struct definitions in the crates.

use crate::nd;
use crate::util::*;
use crate::{cover, noreturn, vassert};
use core::mem::MaybeUninit;
use multiboot2::*;
use multiboot2_common::{MaybeDynSized, Tag};

/// type / size words of a boot-information tag image
fn mbi_head(b: &[u8], typ: u32, size: u32) -> bool {
    le32(b, 0) == typ && le32(b, 4) == size
}
/// type / flags / size of a header tag image
fn hdr_head(b: &[u8], typ: u16, flags: u16, size: u32) -> bool {
    le16(b, 0) == typ && le16(b, 2) == flags && le32(b, 4) == size
}

/// Place a sized tag at a symbolic offset that satisfies its type's alignment
/// inside an 8-aligned buffer: the byte view must be obtainable there.
fn placed<T: MaybeDynSized + Sized>(t: T) {
    #[repr(C, align(8))]
    struct Buf(MaybeUninit<[u8; 1024]>);
    let mut buf = Buf(MaybeUninit::uninit());
    let k: usize = nd::any();
    nd::assume(k <= 3);
    let off = k * core::mem::align_of::<T>();
    let p = unsafe { (buf.0.as_mut_ptr() as *mut u8).add(off) } as *mut T;
    unsafe { p.write(t) };
    let r: &T = unsafe { &*p };
    cover!(k == 1, "placed at the type's own alignment");
    let by = r.as_bytes();
    vassert!(by.as_ptr() as usize == p as usize, "byte view starts at the tag");
}

// @harness props=C07 tier=quick panic=forbid
// @encodes multiboot2::{BasicMemoryInfoTag,BootdevTag,ApmTag}::new + accessors, Tag::ID, MaybeDynSized::as_bytes
// @bound all argument values (symbolic words); placement at 0..3 x align_of
#[cfg_attr(kani, kani::proof)]
pub fn c07_mbi_sized_a() {
    let k: u8 = nd::any();
    if k == 0 {
        let (a, b): (u32, u32) = (nd::any(), nd::any());
        let t = BasicMemoryInfoTag::new(a, b);
        let by = t.as_bytes();
        vassert!(u32::from(BasicMemoryInfoTag::ID) == 4, "ID constant");
        vassert!(mbi_head(&by, 4, 16), "type 4, size 16");
        vassert!(le32(&by, 8) == a && le32(&by, 12) == b, "mem_lower@8 mem_upper@12");
        vassert!(t.memory_lower() == a && t.memory_upper() == b, "read-back");
        placed(t);
    } else if k == 1 {
        let (a, b, c): (u32, u32, u32) = (nd::any(), nd::any(), nd::any());
        let t = BootdevTag::new(a, b, c);
        let by = t.as_bytes();
        vassert!(u32::from(BootdevTag::ID) == 5, "ID constant");
        vassert!(mbi_head(&by, 5, 20), "type 5, size 20");
        vassert!(le32(&by, 8) == a && le32(&by, 12) == b && le32(&by, 16) == c, "biosdev@8 partition@12 sub_partition@16");
        vassert!(t.biosdev() == a && t.slice() == b && t.part() == c, "read-back");
        placed(t);
    } else {
        let v: [u16; 8] = nd::any();
        let o: u32 = nd::any();
        let t = ApmTag::new(v[0], v[1], o, v[2], v[3], v[4], v[5], v[6], v[7]);
        let by = t.as_bytes();
        vassert!(u32::from(ApmTag::ID) == 10, "ID constant");
        vassert!(mbi_head(&by, 10, 28), "type 10, size 28");
        vassert!(le16(&by, 8) == v[0] && le16(&by, 10) == v[1] && le32(&by, 12) == o, "version@8 cseg@10 offset@12");
        vassert!(le16(&by, 16) == v[2] && le16(&by, 18) == v[3] && le16(&by, 20) == v[4], "cseg_16@16 dseg@18 flags@20");
        vassert!(le16(&by, 22) == v[5] && le16(&by, 24) == v[6] && le16(&by, 26) == v[7], "cseg_len@22 cseg_16_len@24 dseg_len@26");
        vassert!(t.version() == v[0] && t.cseg() == v[1] && t.offset() == o && t.cset_16() == v[2] && t.dseg() == v[3] && t.flags() == v[4] && t.cseg_len() == v[5] && t.cseg_16_len() == v[6] && t.dseg_len() == v[7], "read-back");
        placed(t);
    }
    cover!(k == 2, "apm");
}

// @harness props=C07 tier=quick panic=forbid
// @encodes multiboot2::{EFISdt32Tag,EFISdt64Tag,EFIImageHandle32Tag,EFIImageHandle64Tag,EFIBootServicesNotExitedTag,ImageLoadPhysAddrTag,EndTag}::new/default + accessors, TagHeader::new
// @bound all argument values
#[cfg_attr(kani, kani::proof)]
pub fn c07_mbi_sized_b() {
    let k: u8 = nd::any();
    let a: u32 = nd::any();
    let q: u64 = nd::any();
    match k {
        0 => {
            let t = EFISdt32Tag::new(a);
            let by = t.as_bytes();
            vassert!(u32::from(EFISdt32Tag::ID) == 11 && mbi_head(&by, 11, 12) && le32(&by, 8) == a, "EFI32: type 11 size 12 pointer@8");
            vassert!(t.sdt_address() == a as usize, "read-back");
            placed(t);
        }
        1 => {
            let t = EFISdt64Tag::new(q);
            let by = t.as_bytes();
            vassert!(u32::from(EFISdt64Tag::ID) == 12 && mbi_head(&by, 12, 16) && le64(&by, 8) == q, "EFI64: type 12 size 16 pointer@8");
            vassert!(t.sdt_address() == q as usize, "read-back");
            placed(t);
        }
        2 => {
            let t = EFIImageHandle32Tag::new(a);
            let by = t.as_bytes();
            vassert!(u32::from(EFIImageHandle32Tag::ID) == 19 && mbi_head(&by, 19, 12) && le32(&by, 8) == a, "EFI32 IH: type 19 size 12 pointer@8");
            vassert!(t.image_handle() == a as usize, "read-back");
            placed(t);
        }
        3 => {
            let t = EFIImageHandle64Tag::new(q);
            let by = t.as_bytes();
            vassert!(u32::from(EFIImageHandle64Tag::ID) == 20 && mbi_head(&by, 20, 16) && le64(&by, 8) == q, "EFI64 IH: type 20 size 16 pointer@8");
            vassert!(t.image_handle() == q as usize, "read-back");
            placed(t);
        }
        4 => {
            let t = EFIBootServicesNotExitedTag::new();
            let by = t.as_bytes();
            vassert!(u32::from(EFIBootServicesNotExitedTag::ID) == 18 && mbi_head(&by, 18, 8), "EFI BS: type 18 size 8");
            placed(t);
        }
        5 => {
            let t = ImageLoadPhysAddrTag::new(a);
            let by = t.as_bytes();
            vassert!(u32::from(ImageLoadPhysAddrTag::ID) == 21 && mbi_head(&by, 21, 12) && le32(&by, 8) == a, "load base: type 21 size 12 addr@8");
            vassert!(t.load_base_addr() == a, "read-back");
            placed(t);
        }
        6 => {
            let t = EndTag::default();
            let by = t.as_bytes();
            vassert!(u32::from(EndTag::ID) == 0 && mbi_head(&by, 0, 8), "end: type 0 size 8");
            placed(t);
        }
        _ => {
            let h = TagHeader::new(TagTypeId::new(a), q as u32);
            vassert!(u32::from(h.typ) == a && h.size == q as u32, "TagHeader::new stores type and size");
            let h2 = TagHeader::new(TagType::from(a), 0);
            vassert!(u32::from(h2.typ) == a, "TagHeader::new from a TagType");
        }
    }
    cover!(k == 6, "end tag");
}

// @harness props=C07 tier=quick panic=forbid
// @encodes multiboot2::{RsdpV1Tag,RsdpV2Tag}::new + accessors
// @bound all argument values
#[cfg_attr(kani, kani::proof)]
#[cfg_attr(kani, kani::unwind(10))]
pub fn c07_rsdp() {
    let ck: u8 = nd::any();
    let oem: [u8; 6] = nd::any();
    let rev: u8 = nd::any();
    let rsdt: u32 = nd::any();
    if nd::any_bool() {
        let t = RsdpV1Tag::new(ck, oem, rev, rsdt);
        let by = t.as_bytes();
        vassert!(u32::from(RsdpV1Tag::ID) == 14 && mbi_head(&by, 14, 28), "ACPI old RSDP: type 14 size 8+20");
        vassert!(by[8..16] == *b"RSD PTR ", "signature@8");
        vassert!(by[16] == ck && by[17..23] == oem && by[23] == rev && le32(&by, 24) == rsdt, "checksum@16 oemid@17 revision@23 rsdt@24");
        vassert!(t.revision() == rev && t.rsdt_address() == rsdt as usize, "read-back");
        placed(t);
    } else {
        let len: u32 = nd::any();
        let xsdt: u64 = nd::any();
        let eck: u8 = nd::any();
        let t = RsdpV2Tag::new(ck, oem, rev, rsdt, len, xsdt, eck);
        let by = t.as_bytes();
        vassert!(u32::from(RsdpV2Tag::ID) == 15 && mbi_head(&by, 15, 44), "ACPI new RSDP: type 15 size 8+36");
        vassert!(by[8..16] == *b"RSD PTR ", "signature@8");
        vassert!(by[16] == ck && by[17..23] == oem && by[23] == rev && le32(&by, 24) == rsdt, "checksum@16 oemid@17 revision@23 rsdt@24");
        vassert!(le32(&by, 28) == len && le64(&by, 32) == xsdt && by[40] == eck, "length@28 xsdt@32 ext checksum@40");
        vassert!(by[41] == 0 && by[42] == 0 && by[43] == 0, "reserved@41..44 zero");
        vassert!(t.revision() == rev && t.xsdt_address() == xsdt as usize && t.ext_checksum() == eck, "read-back");
        placed(t);
    }
}

// @harness props=C07 tier=quick panic=forbid
// @encodes multiboot2::VBEInfoTag::new + accessors (VBEControlInfo / VBEModeInfo with symbolic public fields)
// @bound symbolic mode words and a selection of control/mode fields (first, middle, last public field of each block); reserved blocks zero
#[cfg_attr(kani, kani::proof)]
pub fn c07_vbe() {
    let w: [u16; 4] = nd::any();
    let mut c = VBEControlInfo::default();
    let mut m = VBEModeInfo::default();
    c.signature = nd::any();
    c.version = nd::any();
    c.oem_product_revision_ptr = nd::any();
    m.window_granularity = nd::any();
    m.pitch = nd::any();
    m.offscreen_memory_size = nd::any();
    let (sig, ver, rev) = (c.signature, c.version, c.oem_product_revision_ptr);
    let (gran, pitch, oms) = (m.window_granularity, m.pitch, m.offscreen_memory_size);
    let t = VBEInfoTag::new(w[0], w[1], w[2], w[3], c, m);
    let by = t.as_bytes();
    vassert!(u32::from(VBEInfoTag::ID) == 7 && mbi_head(&by, 7, 784), "VBE: type 7 size 784");
    vassert!(le16(&by, 8) == w[0] && le16(&by, 10) == w[1] && le16(&by, 12) == w[2] && le16(&by, 14) == w[3], "mode@8 seg@10 off@12 len@14");
    vassert!(by[16..20] == sig && le16(&by, 20) == ver && le32(&by, 16 + 30) == rev, "control info block @16: signature, version, product rev ptr @+30");
    vassert!(le16(&by, 528 + 4) == gran && le16(&by, 528 + 16) == pitch && le16(&by, 528 + 48) == oms, "mode info block @528: granularity@+4 pitch@+16 offscreen size@+48");
    vassert!(t.mode() == w[0] && t.interface_segment() == w[1] && t.interface_offset() == w[2] && t.interface_length() == w[3], "read-back");
    let cb = t.control_info();
    let mb = t.mode_info();
    vassert!({ cb.version } == ver && { mb.pitch } == pitch, "embedded blocks read back");
    placed(t);
}

// @harness props=C07,C12 tier=quick panic=forbid
// @encodes multiboot2_header::{AddressHeaderTag,ConsoleHeaderTag,EndHeaderTag,EntryAddressHeaderTag,EntryEfi32HeaderTag,EntryEfi64HeaderTag,FramebufferHeaderTag,ModuleAlignHeaderTag,RelocatableHeaderTag,EfiBootServiceHeaderTag}::new + accessors, HeaderTagHeader::new
// @bound all argument values; both flag values; placement at 0..3 x align_of
#[cfg_attr(kani, kani::proof)]
pub fn c07_header_sized() {
    use multiboot2_header::*;
    let k: u8 = nd::any();
    let fl = if nd::any_bool() { HeaderTagFlag::Optional } else { HeaderTagFlag::Required };
    let f = fl as u16;
    let a: [u32; 4] = nd::any();
    match k {
        0 => {
            let t = AddressHeaderTag::new(fl, a[0], a[1], a[2], a[3]);
            let by = t.as_bytes();
            vassert!(AddressHeaderTag::ID as u16 == 2 && hdr_head(&by, 2, f, 24), "address tag: type 2 size 24");
            vassert!(le32(&by, 8) == a[0] && le32(&by, 12) == a[1] && le32(&by, 16) == a[2] && le32(&by, 20) == a[3], "header_addr@8 load_addr@12 load_end_addr@16 bss_end_addr@20");
            vassert!(t.header_addr() == a[0] && t.load_addr() == a[1] && t.load_end_addr() == a[2] && t.bss_end_addr() == a[3] && t.flags() == fl && t.size() == 24 && t.typ() as u16 == 2, "read-back");
            placed(t);
        }
        1 => {
            let cf = if nd::any_bool() { ConsoleHeaderTagFlags::EgaTextSupported } else { ConsoleHeaderTagFlags::ConsoleRequired };
            let t = ConsoleHeaderTag::new(fl, cf);
            let by = t.as_bytes();
            vassert!(ConsoleHeaderTag::ID as u16 == 4 && hdr_head(&by, 4, f, 12) && le32(&by, 8) == cf as u32, "console flags tag: type 4 size 12 flags@8");
            vassert!(t.console_flags() == cf && t.flags() == fl && t.size() == 12, "read-back");
            placed(t);
        }
        2 => {
            let t = EndHeaderTag::new();
            vassert!(EndHeaderTag::ID as u16 == 0, "ID constant");
            vassert!(t.typ() as u16 == 0 && t.flags() as u16 == 0 && t.size() == 8, "end tag: type 0 flags 0 size 8");
            placed(t);
        }
        3 => {
            let t = EntryAddressHeaderTag::new(fl, a[0]);
            let by = t.as_bytes();
            vassert!(EntryAddressHeaderTag::ID as u16 == 3 && hdr_head(&by, 3, f, 12) && le32(&by, 8) == a[0], "entry address tag: type 3 size 12 entry_addr@8");
            vassert!(t.entry_addr() == a[0] && t.flags() == fl && t.size() == 12, "read-back");
            placed(t);
        }
        4 => {
            let t = EntryEfi32HeaderTag::new(fl, a[0]);
            let by = t.as_bytes();
            vassert!(EntryEfi32HeaderTag::ID as u16 == 8 && hdr_head(&by, 8, f, 12) && le32(&by, 8) == a[0], "EFI i386 entry tag: type 8 size 12 entry_addr@8");
            vassert!(t.entry_addr() == a[0] && t.flags() == fl, "read-back");
            placed(t);
        }
        5 => {
            let t = EntryEfi64HeaderTag::new(fl, a[0]);
            let by = t.as_bytes();
            vassert!(EntryEfi64HeaderTag::ID as u16 == 9 && hdr_head(&by, 9, f, 12) && le32(&by, 8) == a[0], "EFI amd64 entry tag: type 9 size 12 entry_addr@8");
            vassert!(t.entry_addr() == a[0] && t.flags() == fl, "read-back");
            placed(t);
        }
        6 => {
            let t = FramebufferHeaderTag::new(fl, a[0], a[1], a[2]);
            let by = t.as_bytes();
            vassert!(FramebufferHeaderTag::ID as u16 == 5 && hdr_head(&by, 5, f, 20), "framebuffer tag: type 5 size 20");
            vassert!(le32(&by, 8) == a[0] && le32(&by, 12) == a[1] && le32(&by, 16) == a[2], "width@8 height@12 depth@16");
            vassert!(t.width() == a[0] && t.height() == a[1] && t.depth() == a[2] && t.flags() == fl, "read-back");
            placed(t);
        }
        7 => {
            let t = ModuleAlignHeaderTag::new(fl);
            let by = t.as_bytes();
            vassert!(ModuleAlignHeaderTag::ID as u16 == 6 && hdr_head(&by, 6, f, 8), "module alignment tag: type 6 size 8");
            placed(t);
        }
        8 => {
            let pr = match nd::any::<u8>() % 3 {
                0 => RelocatableHeaderTagPreference::None,
                1 => RelocatableHeaderTagPreference::Low,
                _ => RelocatableHeaderTagPreference::High,
            };
            let t = RelocatableHeaderTag::new(fl, a[0], a[1], a[2], pr);
            let by = t.as_bytes();
            vassert!(RelocatableHeaderTag::ID as u16 == 10 && hdr_head(&by, 10, f, 24), "relocatable tag: type 10 size 24");
            vassert!(le32(&by, 8) == a[0] && le32(&by, 12) == a[1] && le32(&by, 16) == a[2] && le32(&by, 20) == pr as u32, "min_addr@8 max_addr@12 align@16 preference@20");
            vassert!(t.min_addr() == a[0] && t.max_addr() == a[1] && t.align() == a[2] && t.preference() == pr, "read-back");
            placed(t);
        }
        9 => {
            let t = EfiBootServiceHeaderTag::new(fl);
            let by = t.as_bytes();
            vassert!(EfiBootServiceHeaderTag::ID as u16 == 7 && hdr_head(&by, 7, f, 8), "EFI boot services tag: type 7 size 8");
            placed(t);
        }
        _ => {
            let h = HeaderTagHeader::new(HeaderTagType::Framebuffer, fl, a[0]);
            vassert!(h.typ() as u16 == 5 && h.flags() == fl && h.size() == a[0], "HeaderTagHeader::new");
        }
    }
    cover!(k == 2, "end header tag");
    cover!(k == 8, "relocatable");
}

// ---------------------------------------------------------------------------
// dynamically sized constructors (builder feature)
// ---------------------------------------------------------------------------

// @harness props=C07 tier=quick panic=forbid builder=yes
// @encodes multiboot2::MemoryMapTag::new MemoryArea::new + accessors, new_boxed
// @bound 0..=2 memory areas with symbolic fields
#[cfg_attr(kani, kani::proof)]
#[cfg_attr(kani, kani::unwind(52))]
#[cfg(feature = "builder")]
pub fn c07_mmap() {
    let v: [u64; 4] = nd::any();
    let ty: [u32; 2] = nd::any();
    let areas = [
        MemoryArea::new(v[0], v[1], MemoryAreaTypeId::from(ty[0])),
        MemoryArea::new(v[2], v[3], MemoryAreaType::from(MemoryAreaTypeId::from(ty[1]))),
    ];
    let n: usize = nd::any();
    nd::assume(n <= 2);
    let t = MemoryMapTag::new(&areas[..n]);
    let by = t.as_bytes();
    vassert!(u32::from(MemoryMapTag::ID) == 6 && mbi_head(&by, 6, (16 + 24 * n) as u32), "memory map: type 6, size 16 + 24 per entry");
    vassert!(le32(&by, 8) == 24 && le32(&by, 12) == 0, "entry_size@8 = 24, entry_version@12 = 0");
    if n >= 1 {
        vassert!(le64(&by, 16) == v[0] && le64(&by, 24) == v[1] && le32(&by, 32) == ty[0] && le32(&by, 36) == 0, "entry 0: base@16 length@24 type@32 reserved@36");
    }
    if n == 2 {
        vassert!(le64(&by, 40) == v[2] && le64(&by, 48) == v[3] && le32(&by, 56) == ty[1] && le32(&by, 60) == 0, "entry 1 at 40");
    }
    let a = t.memory_areas();
    vassert!(a.len() == n && t.entry_size() == 24 && t.entry_version() == 0, "read-back");
    if n == 2 {
        vassert!(a[1].start_address() == v[2] && a[1].size() == v[3] && u32::from(a[1].typ()) == ty[1], "read-back of entry 1");
    }
    cover!(n == 2, "two areas");
    cover!(n == 0, "empty map");
}

// @harness props=C07 tier=quick panic=forbid builder=yes
// @encodes multiboot2::SmbiosTag::new NetworkTag::new EFIMemoryMapTag::new_from_map + accessors
// @bound content length 0..=9 (every padding residue), symbolic field values
#[cfg_attr(kani, kani::proof)]
#[cfg_attr(kani, kani::unwind(28))]
#[cfg(feature = "builder")]
pub fn c07_bytes_kinds() {
    let data: [u8; 9] = nd::any();
    let n: usize = nd::any();
    nd::assume(n <= 9);
    let k: u8 = nd::any();
    let mut same = true;
    if k == 0 {
        let (ma, mi): (u8, u8) = (nd::any(), nd::any());
        let t = SmbiosTag::new(ma, mi, &data[..n]);
        let by = t.as_bytes();
        vassert!(u32::from(SmbiosTag::ID) == 13 && mbi_head(&by, 13, (16 + n) as u32), "SMBIOS: type 13, size 16 + tables");
        vassert!(by[8] == ma && by[9] == mi, "major@8 minor@9");
        vassert!(by[10] == 0 && by[11] == 0 && by[12] == 0 && by[13] == 0 && by[14] == 0 && by[15] == 0, "reserved@10..16 zero");
        let mut i = 0;
        while i < n {
            same &= by[16 + i] == data[i];
            i += 1;
        }
        vassert!(t.major() == ma && t.minor() == mi && t.tables().len() == n, "read-back");
    } else if k == 1 {
        let t = NetworkTag::new(&data[..n]);
        let by = t.as_bytes();
        vassert!(u32::from(NetworkTag::ID) == 16 && mbi_head(&by, 16, (8 + n) as u32), "network: type 16, size 8 + DHCP ACK");
        let mut i = 0;
        while i < n {
            same &= by[8 + i] == data[i];
            i += 1;
        }
    } else {
        let (d, v): (u32, u32) = (nd::any(), nd::any());
        nd::assume(d != 0);
        let t = EFIMemoryMapTag::new_from_map(d, v, &data[..n]);
        let by = t.as_bytes();
        vassert!(u32::from(EFIMemoryMapTag::ID) == 17 && mbi_head(&by, 17, (16 + n) as u32), "EFI memory map: type 17, size 16 + map");
        vassert!(le32(&by, 8) == d && le32(&by, 12) == v, "descriptor size@8 version@12");
        let mut i = 0;
        while i < n {
            same &= by[16 + i] == data[i];
            i += 1;
        }
    }
    cover!(n == 9 && k == 0, "padded smbios");
    cover!(n == 3 && k == 1, "padded network");
    vassert!(same, "content bytes follow the fixed part");
}

// @harness props=C07 tier=quick panic=forbid builder=yes
// @encodes multiboot2::EFIMemoryMapTag::new_from_descs memory_areas()
// @bound 0..=1 descriptors with symbolic fields
#[cfg_attr(kani, kani::proof)]
#[cfg_attr(kani, kani::unwind(44))]
#[cfg(feature = "builder")]
pub fn c07_efi_descs() {
    use uefi_raw::table::boot::{MemoryAttribute, MemoryType};
    let v: [u64; 4] = nd::any();
    let ty: u32 = nd::any();
    let d = [EFIMemoryDesc { ty: MemoryType(ty), phys_start: v[0], virt_start: v[1], page_count: v[2], att: MemoryAttribute::from_bits_retain(v[3]) }];
    let n: usize = nd::any();
    nd::assume(n <= 1);
    let t = EFIMemoryMapTag::new_from_descs(&d[..n]);
    let by = t.as_bytes();
    vassert!(mbi_head(&by, 17, (16 + 40 * n) as u32), "type 17, size 16 + 40 per descriptor");
    vassert!(le32(&by, 8) == 40 && le32(&by, 12) == 1, "descriptor size 40, version 1");
    if n == 1 {
        vassert!(le32(&by, 16) == ty && le64(&by, 24) == v[0] && le64(&by, 32) == v[1] && le64(&by, 40) == v[2] && le64(&by, 48) == v[3], "descriptor fields: type@+0 phys@+8 virt@+16 pages@+24 attr@+32");
        let mut it = t.memory_areas();
        let x = it.next();
        vassert!(x.is_some() && x.unwrap().phys_start == v[0] && x.unwrap().page_count == v[2], "read-back");
    }
    cover!(n == 1, "one descriptor");
}

// @harness props=C07 tier=quick panic=forbid builder=yes
// @encodes multiboot2::FramebufferTag::new FramebufferType::serialize FramebufferType::id + accessors buffer_type()
// @bound all field values; the three framebuffer types; palette of 0..=2 colours
#[cfg_attr(kani, kani::proof)]
#[cfg_attr(kani, kani::unwind(12))]
#[cfg(feature = "builder")]
pub fn c07_framebuffer() {
    let addr: u64 = nd::any();
    let w: [u32; 3] = nd::any();
    let bpp: u8 = nd::any();
    let c: [u8; 6] = nd::any();
    let pal = [FramebufferColor { red: c[0], green: c[1], blue: c[2] }, FramebufferColor { red: c[3], green: c[4], blue: c[5] }];
    let n: usize = nd::any();
    nd::assume(n <= 2);
    let k: u8 = nd::any();
    nd::assume(k <= 2);
    let ty = match k {
        0 => FramebufferType::Indexed { palette: &pal[..n] },
        1 => FramebufferType::RGB {
            red: FramebufferField { position: c[0], size: c[1] },
            green: FramebufferField { position: c[2], size: c[3] },
            blue: FramebufferField { position: c[4], size: c[5] },
        },
        _ => FramebufferType::Text,
    };
    let t = FramebufferTag::new(addr, w[0], w[1], w[2], bpp, ty);
    let by = t.as_bytes();
    let extra = match k {
        0 => 2 + 3 * n,
        1 => 6,
        _ => 0,
    };
    vassert!(u32::from(FramebufferTag::ID) == 8 && mbi_head(&by, 8, (32 + extra) as u32), "framebuffer: type 8, size 32 + colour info");
    vassert!(le64(&by, 8) == addr && le32(&by, 16) == w[0] && le32(&by, 20) == w[1] && le32(&by, 24) == w[2], "addr@8 pitch@16 width@20 height@24");
    vassert!(by[28] == bpp && by[29] == k && le16(&by, 30) == 0, "bpp@28 type@29 reserved@30 zero");
    match k {
        0 => {
            vassert!(le16(&by, 32) as usize == n, "palette count@32");
            if n >= 1 {
                vassert!(by[34] == c[0] && by[35] == c[1] && by[36] == c[2], "colour 0 r,g,b @34");
            }
            if n == 2 {
                vassert!(by[37] == c[3] && by[38] == c[4] && by[39] == c[5], "colour 1 @37");
            }
        }
        1 => vassert!(by[32] == c[0] && by[33] == c[1] && by[34] == c[2] && by[35] == c[3] && by[36] == c[4] && by[37] == c[5], "red pos,size green pos,size blue pos,size @32"),
        _ => {}
    }
    vassert!(t.address() == addr && t.pitch() == w[0] && t.width() == w[1] && t.height() == w[2] && t.bpp() == bpp, "read-back");
    match t.buffer_type() {
        Ok(FramebufferType::Indexed { palette }) => vassert!(k == 0 && palette.len() == n && (n < 2 || palette[1].blue == c[5]), "indexed read-back"),
        Ok(FramebufferType::RGB { red, green, blue }) => vassert!(k == 1 && red.position == c[0] && green.size == c[3] && blue.position == c[4], "rgb read-back"),
        Ok(FramebufferType::Text) => vassert!(k == 2, "text read-back"),
        Err(_) => vassert!(false, "a constructed framebuffer tag has a known type"),
    }
    cover!(k == 0 && n == 2, "two colours");
    cover!(k == 1, "rgb");
}

// @harness props=C07 tier=quick panic=forbid builder=yes
// @encodes multiboot2_header::InformationRequestHeaderTag::new + accessors
// @bound 0..=3 requests, both flag values
#[cfg_attr(kani, kani::proof)]
#[cfg_attr(kani, kani::unwind(20))]
#[cfg(feature = "builder")]
pub fn c07_information_request() {
    use multiboot2_header::{HeaderTagFlag, InformationRequestHeaderTag, MbiTagTypeId};
    let r: [u32; 3] = nd::any();
    let reqs = [MbiTagTypeId::new(r[0]), MbiTagTypeId::new(r[1]), MbiTagTypeId::new(r[2])];
    let n: usize = nd::any();
    nd::assume(n <= 3);
    let fl = if nd::any_bool() { HeaderTagFlag::Optional } else { HeaderTagFlag::Required };
    let t = InformationRequestHeaderTag::new(fl, &reqs[..n]);
    let by = t.as_bytes();
    vassert!(InformationRequestHeaderTag::ID as u16 == 1 && hdr_head(&by, 1, fl as u16, (8 + 4 * n) as u32), "information request: type 1, size 8 + 4 per request");
    let mut i = 0;
    let mut same = true;
    while i < n {
        same &= le32(&by, 8 + 4 * i) == r[i] && u32::from(t.requests()[i]) == r[i];
        i += 1;
    }
    vassert!(same && t.requests().len() == n && t.flags() == fl && t.size() as usize == 8 + 4 * n, "requests stored in order and read back");
    cover!(n == 3, "three requests");
}
