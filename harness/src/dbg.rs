//! Debug formatters (C01 / C09): the integer-only `fmt` bodies are model-checked
//! directly into a null writer (thorough tier).  Formatters that print strings
//! (`cmdline`, `name`, section names) go through `core::fmt`'s `str` escaping,
//! which is out of reach for CBMC; for those the claim is compositional (§3 of
//! DESIGN.md).

use crate::nd;
use crate::util::*;
use crate::{cover, noreturn, vassert};
use core::fmt::Write;
use multiboot2_common::DynSizedStructure;

// @harness props=C01 tier=thorough panic=allow timeout=2400 mem=30
// @encodes <EFISdt64Tag as Debug>::fmt <BasicMemoryInfoTag as Debug>::fmt <ImageLoadPhysAddrTag as Debug>::fmt <TagHeader as Debug>::fmt <TagTypeId as Debug>::fmt (through core::fmt integer formatting, into a null writer)
// @bound exact-size tag objects with symbolic contents (all field values, all tag type numbers)
#[cfg_attr(kani, kani::proof)]
#[cfg_attr(kani, kani::unwind(24))]
pub fn c01_debug_sized_tags() {
    use multiboot2::*;
    let b = Aligned::<16>::any();
    let g = DynSizedStructure::<TagHeader>::ref_from_slice(&b.0[..]);
    let g = match g {
        Ok(g) => g,
        Err(_) => return,
    };
    let mut w = Null;
    let k: u8 = nd::any();
    match k {
        0 => {
            let t = g.cast::<EFISdt64Tag>();
            let _ = write!(w, "{:?}", t);
        }
        1 => {
            let t = g.cast::<BasicMemoryInfoTag>();
            let _ = write!(w, "{:?}", t);
        }
        2 => {
            let t = g.cast::<ImageLoadPhysAddrTag>();
            let _ = write!(w, "{:?}", t);
        }
        _ => {
            let _ = write!(w, "{:?}", g.header());
        }
    }
    cover!(k == 0, "efi sdt64 formatted");
}

// @harness props=C09 tier=thorough panic=allow timeout=2400 mem=30
// @encodes <Multiboot2Header as Debug>::fmt <Multiboot2BasicHeader as Debug>::fmt <ModuleAlignHeaderTag as Debug>::fmt <EntryAddressHeaderTag as Debug>::fmt
// @bound 32-byte header (valid magic / checksum, defined enumerated fields) with one symbolic 8-byte tag and an end tag
// @assume architecture, tag type and flags hold defined values
#[cfg_attr(kani, kani::proof)]
#[cfg_attr(kani, kani::unwind(24))]
pub fn c09_debug_header() {
    use multiboot2_header::*;
    let b = crate::c09::header_region::<32>();
    let _ = crate::c09::assume_defined_enums(&b);
    let h = match crate::c09::hload(&b) {
        Some(h) => h,
        None => return,
    };
    let mut w = Null;
    let k: u8 = nd::any();
    match k {
        0 => {
            let _ = write!(w, "{:?}", h);
        }
        1 => {
            if let Some(t) = h.module_align_tag() {
                let _ = write!(w, "{:?}", t);
            }
        }
        _ => {
            if let Some(t) = h.iter().next() {
                let _ = write!(w, "{:?}", t.header());
            }
        }
    }
    cover!(k == 0, "header formatted");
}

// @harness props=C01 tier=thorough panic=allow timeout=3000 mem=30
// @encodes <FramebufferTag as Debug>::fmt (buffer_type + integer fields) <SmbiosTag as Debug>::fmt <RsdpV1Tag as Debug>::fmt
// @bound exact-size tag objects (framebuffer 40 bytes, smbios 24, rsdp v1 32) with symbolic contents
#[cfg_attr(kani, kani::proof)]
#[cfg_attr(kani, kani::unwind(24))]
pub fn c01_debug_dst_tags() {
    use multiboot2::*;
    let mut w = Null;
    let k: u8 = nd::any();
    if k == 0 {
        let mut b = Aligned::<40>::any();
        put32(&mut b.0, 4, 40);
        nd::assume(le16(&b.0, 32) <= 1);
        if let Ok(g) = DynSizedStructure::<TagHeader>::ref_from_slice(&b.0[..]) {
            let _ = write!(w, "{:?}", g.cast::<FramebufferTag>());
            cover!(true, "framebuffer formatted");
        }
    } else if k == 1 {
        let mut b = Aligned::<24>::any();
        put32(&mut b.0, 4, 21);
        if let Ok(g) = DynSizedStructure::<TagHeader>::ref_from_slice(&b.0[..]) {
            let _ = write!(w, "{:?}", g.cast::<SmbiosTag>());
        }
    } else {
        let mut b = Aligned::<32>::any();
        put32(&mut b.0, 4, 28);
        if let Ok(g) = DynSizedStructure::<TagHeader>::ref_from_slice(&b.0[..]) {
            let _ = write!(w, "{:?}", g.cast::<RsdpV1Tag>());
        }
    }
}
