//! C16 — heap construction lays out header and content exactly; cloning is the
//! identity.  (builder feature)
#![cfg(feature = "builder")]

use crate::nd;
use crate::util::*;
use crate::{cover, noreturn, vassert};
use alloc::boxed::Box;
use core::alloc::Layout;
use multiboot2::{TagHeader, TagTypeId};
use multiboot2_common::{clone_dyn, new_boxed, DynSizedStructure, MaybeDynSized};

const MAXC: usize = 12;
const MAXC_T: usize = 24;

/// Symbolic content of length `total <= M` cut into `k <= 3` slices.
struct Parts<const M: usize = MAXC> {
    content: [u8; M],
    c1: usize,
    c2: usize,
    total: usize,
    k: usize,
}
fn parts<const M: usize>() -> Parts<M> {
    let content: [u8; M] = nd::any();
    let c1: usize = nd::any();
    let c2: usize = nd::any();
    let total: usize = nd::any();
    let k: usize = nd::any();
    nd::assume(c1 <= c2 && c2 <= total && total <= M && k <= 3);
    Parts { content, c1, c2, total, k }
}
impl<const M: usize> Parts<M> {
    fn used(&self) -> usize {
        match self.k {
            0 => 0,
            1 => self.c1,
            2 => self.c2,
            _ => self.total,
        }
    }
}

// @harness props=C16,C06 tier=quick panic=forbid builder=yes
// @encodes multiboot2_common::new_boxed::<DynSizedStructure<TagHeader>> TagHeader::set_size increase_to_alignment Box drop glue (Layout::for_value)
// @bound content of total length 0..=12 split into 0..=3 slices at symbolic cut points; header type and stale size symbolic
#[cfg_attr(kani, kani::proof)]
#[cfg_attr(kani, kani::unwind(14))]
pub fn c16_new_boxed_tag() {
    new_boxed_tag::<MAXC>();
}

// @harness props=C16 tier=thorough panic=forbid builder=yes timeout=3000
// @encodes as c16_new_boxed_tag
// @bound content of total length 0..=24 in 0..=3 slices
#[cfg_attr(kani, kani::proof)]
#[cfg_attr(kani, kani::unwind(26))]
pub fn c16_new_boxed_tag_24() {
    new_boxed_tag::<MAXC_T>();
}

fn new_boxed_tag<const M: usize>() {
    let p = parts::<M>();
    let s = [&p.content[..p.c1], &p.content[p.c1..p.c2], &p.content[p.c2..p.total]];
    let typ: u32 = nd::any();
    let stale: u32 = nd::any();
    let hdr = TagHeader::new(TagTypeId::new(typ), stale);
    let bx: Box<DynSizedStructure<TagHeader>> = new_boxed(hdr, &s[..p.k]);
    let n = p.used();
    let addr = &*bx as *const DynSizedStructure<TagHeader> as *const u8 as usize;
    vassert!(addr % 8 == 0, "allocation is 8-aligned");
    vassert!(u32::from(bx.header().typ) == typ, "header type preserved");
    vassert!(bx.header().size as usize == 8 + n, "size field = header size + total content length");
    vassert!(bx.payload().len() == n, "payload length");
    let mut same = true;
    let mut i = 0;
    while i < n {
        same &= bx.payload()[i] == p.content[i];
        i += 1;
    }
    vassert!(same, "content is concatenated without gaps directly after the header");
    vassert!(core::mem::size_of_val(&*bx) == round8(8 + n), "in-memory size is the total rounded up to 8");
    let l = Layout::for_value(&*bx);
    vassert!(l.size() == round8(8 + n) && l.align() == 8, "the layout Box frees with equals the layout allocated");
    cover!(p.k == 3 && p.c1 == 1 && p.c2 == 2 && p.total == 5, "three slices, padded total");
    cover!(p.k == 0, "no content");
    cover!(n == 8, "aligned total");
    drop(bx); // freed exactly once, under the model checker's free checks
}

// @harness props=C16,C12 tier=quick panic=forbid builder=yes
// @encodes new_boxed::<DynSizedStructure<Multiboot2BasicHeader>> Multiboot2BasicHeader::set_size calc_checksum
// @bound content 0..=12 bytes in 0..=3 slices; both architectures
#[cfg_attr(kani, kani::proof)]
#[cfg_attr(kani, kani::unwind(14))]
pub fn c16_new_boxed_header() {
    use multiboot2_header::{HeaderTagISA, Multiboot2BasicHeader};
    let p = parts::<MAXC>();
    let s = [&p.content[..p.c1], &p.content[p.c1..p.c2], &p.content[p.c2..p.total]];
    // a basic header as the builder makes it: only reachable through load of a built header
    let arch = if nd::any_bool() { HeaderTagISA::MIPS32 } else { HeaderTagISA::I386 };
    let mut proto = Aligned::<16>([0; 16]);
    put32(&mut proto.0, 0, 0xE852_50D6);
    put32(&mut proto.0, 4, arch as u32);
    let hdr: Multiboot2BasicHeader = unsafe { core::ptr::read(proto.0.as_ptr().cast()) };
    let bx: Box<DynSizedStructure<Multiboot2BasicHeader>> = new_boxed(hdr, &s[..p.k]);
    let n = p.used();
    let h = bx.header();
    vassert!(h.length() as usize == 16 + n, "length field = header size + content length");
    vassert!(h.header_magic() == 0xE852_50D6 && h.arch() == arch, "magic and architecture preserved");
    vassert!(h.header_magic().wrapping_add(arch as u32).wrapping_add(h.length()).wrapping_add(h.checksum()) == 0, "checksum recomputed for the patched length");
    vassert!(bx.payload().len() == n, "payload length");
    vassert!(core::mem::size_of_val(&*bx) == round8(16 + n), "in-memory size");
    let mut same = true;
    let mut i = 0;
    while i < n {
        same &= bx.payload()[i] == p.content[i];
        i += 1;
    }
    vassert!(same, "content follows the header without gaps");
    cover!(n == 12 && p.k == 2, "two slices");
}

// @harness props=C16,C06 tier=quick panic=forbid builder=yes
// @encodes new_boxed::<DynSizedStructure<BootInformationHeader>> BootInformationHeader::set_size total_size
// @bound content 0..=12 bytes in 0..=3 slices (every residue mod 8)
#[cfg_attr(kani, kani::proof)]
#[cfg_attr(kani, kani::unwind(14))]
pub fn c16_new_boxed_mbi() {
    use multiboot2::BootInformationHeader;
    let p = parts::<MAXC>();
    let s = [&p.content[..p.c1], &p.content[p.c1..p.c2], &p.content[p.c2..p.total]];
    let proto = Aligned::<8>([0; 8]);
    let hdr: BootInformationHeader = unsafe { core::ptr::read(proto.0.as_ptr().cast()) };
    let bx: Box<DynSizedStructure<BootInformationHeader>> = new_boxed(hdr, &s[..p.k]);
    let n = p.used();
    vassert!(bx.header().total_size() as usize == 8 + n, "total_size field = header size + total content length");
    vassert!(bx.payload().len() == n, "payload length");
    vassert!(core::mem::size_of_val(&*bx) == round8(8 + n), "in-memory size is the total rounded up to 8");
    let mut same = true;
    let mut i = 0;
    while i < n {
        same &= bx.payload()[i] == p.content[i];
        i += 1;
    }
    vassert!(same, "content follows the header without gaps");
    cover!(n == 1, "content length 1");
    cover!(n == 8, "aligned content");
}

/// clone == original: same declared size, same bytes up to that size.
fn clone_check<T: MaybeDynSized<Header = TagHeader, Metadata = usize> + ?Sized>(t: &T) {
    let c: Box<T> = clone_dyn(t);
    let size = t.header().size as usize;
    vassert!(c.header().size as usize == size, "clone declares the same size");
    vassert!(u32::from(c.header().typ) == u32::from(t.header().typ), "clone has the same type");
    vassert!(core::mem::size_of_val(&*c) == core::mem::size_of_val(t), "clone has the same in-memory size");
    let a = t.as_bytes();
    let b = c.as_bytes();
    let mut same = true;
    let mut i = 0;
    while i < size {
        same &= a[i] == b[i];
        i += 1;
    }
    vassert!(same, "clone has the same bytes up to the declared size");
}

fn ascii<const N: usize>(len: usize) -> [u8; N] {
    let mut s: [u8; N] = nd::any();
    let mut i = 0;
    while i < N {
        nd::assume(s[i] != 0 && s[i] < 0x80);
        i += 1;
    }
    s
}

// @harness props=C16 tier=quick panic=forbid builder=yes
// @encodes multiboot2_common::clone_dyn::<SmbiosTag> clone_dyn::<NetworkTag> clone_dyn::<DynSizedStructure<TagHeader>> MaybeDynSized::payload as_bytes new_boxed
// @bound content length 0..=9 (every padding residue) of three byte-tailed kinds
#[cfg_attr(kani, kani::proof)]
#[cfg_attr(kani, kani::unwind(28))]
pub fn c16_clone_bytes_kinds() {
    use multiboot2::{NetworkTag, SmbiosTag};
    let data: [u8; 9] = nd::any();
    let n: usize = nd::any();
    nd::assume(n <= 9);
    let k: u8 = nd::any();
    cover!(n == 6 && k == 0, "size not a multiple of 8");
    cover!(n == 8 && k == 1, "size a multiple of 8");
    if k == 0 {
        clone_check(&*SmbiosTag::new(nd::any(), nd::any(), &data[..n]));
    } else if k == 1 {
        clone_check(&*NetworkTag::new(&data[..n]));
    } else {
        let g: Box<DynSizedStructure<TagHeader>> = new_boxed(TagHeader::new(TagTypeId::new(0x77), 0), &[&data[..n]]);
        clone_check(&*g);
    }
}

// @harness props=C16 tier=quick panic=forbid builder=yes
// @encodes clone_dyn::<CommandLineTag> clone_dyn::<BootLoaderNameTag> clone_dyn::<ModuleTag>
// @bound ASCII text of length 0..=6 (every padding residue)
#[cfg_attr(kani, kani::proof)]
#[cfg_attr(kani, kani::unwind(28))]
pub fn c16_clone_string_kinds() {
    use multiboot2::{BootLoaderNameTag, CommandLineTag, ModuleTag};
    let n: usize = nd::any();
    nd::assume(n <= 6);
    let text = ascii::<6>(n);
    let s = unsafe { core::str::from_utf8_unchecked(&text[..n]) };
    let k: u8 = nd::any();
    cover!(n == 5, "padded");
    if k == 0 {
        clone_check(&*CommandLineTag::new(s));
    } else if k == 1 {
        clone_check(&*BootLoaderNameTag::new(s));
    } else {
        clone_check(&*ModuleTag::new(1, 2, s));
    }
}

// @harness props=C16 tier=quick panic=forbid builder=yes
// @encodes clone_dyn::<MemoryMapTag> clone_dyn::<EFIMemoryMapTag> clone_dyn::<FramebufferTag>
// @bound 0..=1 memory areas; EFI map of 0..=9 bytes; framebuffer of the three types with <= 1 palette entry
#[cfg_attr(kani, kani::proof)]
#[cfg_attr(kani, kani::unwind(50))]
pub fn c16_clone_struct_kinds() {
    use multiboot2::*;
    let k: u8 = nd::any();
    if k == 0 {
        let areas = [MemoryArea::new(nd::any(), nd::any(), MemoryAreaTypeId::from(nd::any::<u32>()))];
        let n: usize = nd::any();
        nd::assume(n <= 1);
        clone_check(&*MemoryMapTag::new(&areas[..n]));
    } else if k == 1 {
        let data: [u8; 9] = nd::any();
        let n: usize = nd::any();
        nd::assume(n <= 9);
        let d: u32 = nd::any();
        nd::assume(d != 0);
        clone_check(&*EFIMemoryMapTag::new_from_map(d, nd::any(), &data[..n]));
    } else {
        let pal = [FramebufferColor { red: nd::any(), green: nd::any(), blue: nd::any() }];
        let n: usize = nd::any();
        nd::assume(n <= 1);
        let ty = match nd::any::<u8>() % 3 {
            0 => FramebufferType::Indexed { palette: &pal[..n] },
            1 => FramebufferType::RGB {
                red: FramebufferField { position: nd::any(), size: nd::any() },
                green: FramebufferField { position: nd::any(), size: nd::any() },
                blue: FramebufferField { position: nd::any(), size: nd::any() },
            },
            _ => FramebufferType::Text,
        };
        clone_check(&*FramebufferTag::new(nd::any(), nd::any(), nd::any(), nd::any(), nd::any(), ty));
    }
}

// @harness props=C16 tier=quick panic=forbid builder=yes
// @encodes clone_dyn::<InformationRequestHeaderTag> (header crate)
// @bound 0..=3 requests
// @assume header tag flags hold a defined value
#[cfg_attr(kani, kani::proof)]
#[cfg_attr(kani, kani::unwind(24))]
pub fn c16_clone_information_request() {
    use multiboot2_header::{HeaderTagFlag, InformationRequestHeaderTag, MbiTagTypeId};
    let reqs = [MbiTagTypeId::new(nd::any()), MbiTagTypeId::new(nd::any()), MbiTagTypeId::new(nd::any())];
    let n: usize = nd::any();
    nd::assume(n <= 3);
    let f = if nd::any_bool() { HeaderTagFlag::Optional } else { HeaderTagFlag::Required };
    let t = InformationRequestHeaderTag::new(f, &reqs[..n]);
    let c: Box<InformationRequestHeaderTag> = clone_dyn(&*t);
    vassert!(c.size() == t.size(), "clone declares the same size");
    vassert!(c.size() as usize == 8 + 4 * n, "size is 8 + 4 per request");
    vassert!(c.requests().len() == n, "same number of requests");
    vassert!(c.flags() == t.flags() && c.typ() == t.typ(), "same header fields");
    let mut same = true;
    let mut i = 0;
    while i < n {
        same &= u32::from(c.requests()[i]) == u32::from(reqs[i]);
        i += 1;
    }
    cover!(n == 1, "one request (padded)");
    vassert!(same, "same requests");
}

// ---------------------------------------------------------------------------
// allocation layout observed through a stub of the global allocator's entry point,
// compared with the layout Box's drop glue frees with (Layout::for_value of the pointee)
// ---------------------------------------------------------------------------
#[cfg(kani)]
mod alloc_spy {
    use core::alloc::Layout;
    pub static mut ALLOCS: usize = 0;
    pub static mut A_SIZE: usize = 0;
    pub static mut A_ALIGN: usize = 0;
    pub static mut A_PTR: usize = 0;
    pub unsafe fn spy_alloc(layout: Layout) -> *mut u8 {
        ALLOCS += 1;
        A_SIZE = layout.size();
        A_ALIGN = layout.align();
        let p = std::alloc::alloc_zeroed(layout);
        A_PTR = p as usize;
        p
    }
}

/// (size, align, pointer, count ok) of the allocation behind `bx`: from the stub under Kani, from the
/// tracking global allocator natively
#[cfg(kani)]
fn observed_alloc<T: ?Sized>(_bx: &Box<T>) -> Option<(usize, usize)> {
    use alloc_spy::*;
    unsafe {
        if ALLOCS == 1 && A_PTR == &**_bx as *const T as *const u8 as usize {
            Some((A_SIZE, A_ALIGN))
        } else {
            None
        }
    }
}
#[cfg(not(kani))]
fn observed_alloc<T: ?Sized>(bx: &Box<T>) -> Option<(usize, usize)> {
    crate::nd::alloc_track::layout_of(&**bx as *const T as *const u8 as usize)
}

fn spy_check<T: ?Sized>(bx: &Box<T>, total: usize) {
    let l = Layout::for_value(&**bx);
    let o = observed_alloc(bx);
    vassert!(o.is_some(), "the box owns exactly one allocated block");
    let (a_size, a_align) = o.unwrap();
    vassert!(a_size == round8(total) && a_align == 8, "allocation is the total rounded up to 8, 8-aligned");
    vassert!(l.size() == a_size && l.align() == a_align, "the layout Box frees with is the layout that was allocated");
}

fn after_drop() {
    #[cfg(not(kani))]
    vassert!(!crate::nd::alloc_track::mismatch_seen(), "freed with the layout it was allocated with");
}

// @harness props=C16 tier=quick panic=forbid builder=yes kflags=-Z~stubbing
// @encodes new_boxed::<DynSizedStructure<HeaderTagHeader>> / new_boxed::<InformationRequestHeaderTag>: Layout passed to alloc::alloc::alloc (observed through a stub) vs. Layout::for_value of the box (what drop frees with); drop under CBMC's free checks
// @bound content 0..=5 bytes / 0..=2 requests; header kind with alignment 4 (HeaderTagHeader)
// @assume stub: std::alloc::alloc replaced by a recording wrapper around alloc_zeroed
#[cfg_attr(kani, kani::proof)]
#[cfg_attr(kani, kani::unwind(8))]
#[cfg_attr(kani, kani::stub(std::alloc::alloc, alloc_spy::spy_alloc))]
pub fn c16_layout_header_tag() {
    use multiboot2_header::{HeaderTagFlag, HeaderTagHeader, HeaderTagType, InformationRequestHeaderTag, MbiTagTypeId};
    if nd::any_bool() {
        let data: [u8; 5] = nd::any();
        let n: usize = nd::any();
        nd::assume(n <= 5);
        let hdr = HeaderTagHeader::new(HeaderTagType::ModuleAlign, HeaderTagFlag::Required, 0);
        let bx: Box<DynSizedStructure<HeaderTagHeader>> = new_boxed(hdr, &[&data[..n]]);
        vassert!(bx.header().size() as usize == 8 + n, "size field");
        spy_check(&bx, 8 + n);
        cover!(n == 3, "padded");
        drop(bx);
        after_drop();
    } else {
        let reqs = [MbiTagTypeId::new(nd::any()), MbiTagTypeId::new(nd::any())];
        let n: usize = nd::any();
        nd::assume(n <= 2);
        let bx = InformationRequestHeaderTag::new(HeaderTagFlag::Optional, &reqs[..n]);
        spy_check(&bx, 8 + 4 * n);
        drop(bx);
        after_drop();
    }
}

// @harness props=C16 tier=quick panic=forbid builder=yes kflags=-Z~stubbing
// @encodes new_boxed::<DynSizedStructure<TagHeader>> / new_boxed::<DynSizedStructure<Multiboot2BasicHeader>>: allocation layout vs. Box's free layout
// @bound content 0..=5 bytes in two slices
// @assume stub: std::alloc::alloc replaced by a recording wrapper around alloc_zeroed
#[cfg_attr(kani, kani::proof)]
#[cfg_attr(kani, kani::unwind(8))]
#[cfg_attr(kani, kani::stub(std::alloc::alloc, alloc_spy::spy_alloc))]
pub fn c16_layout_tag_and_header() {
    let data: [u8; 5] = nd::any();
    let n: usize = nd::any();
    let c: usize = nd::any();
    nd::assume(c <= n && n <= 5);
    if nd::any_bool() {
        let bx: Box<DynSizedStructure<TagHeader>> = new_boxed(TagHeader::new(TagTypeId::new(9), 0), &[&data[..c], &data[c..n]]);
        spy_check(&bx, 8 + n);
        drop(bx);
        after_drop();
    } else {
        use multiboot2_header::Multiboot2BasicHeader;
        let mut proto = Aligned::<16>([0; 16]);
        put32(&mut proto.0, 0, 0xE852_50D6);
        let hdr: Multiboot2BasicHeader = unsafe { core::ptr::read(proto.0.as_ptr().cast()) };
        let bx: Box<DynSizedStructure<Multiboot2BasicHeader>> = new_boxed(hdr, &[&data[..c], &data[c..n]]);
        spy_check(&bx, 16 + n);
        drop(bx);
        after_drop();
    }
}
