//! C12 — building then loading a header: byte-level round trip for small
//! concrete slot subsets (Kani).  All 2^10 subsets are decided structurally by
//! the MIR engine (targets `header_builder`, `header_builder_setters`).
#![cfg(feature = "builder")]

use crate::nd;
use crate::util::*;
use crate::{cover, noreturn, vassert};
use multiboot2_common::MaybeDynSized;
use multiboot2_header::*;

/// Image of the built header, checked on the bytes themselves (loading and walking such an image
/// is C10 / C11): magic, architecture, length == byte length, checksum congruence, final end tag.
fn image_ok(by: &[u8], arch: HeaderTagISA) {
    vassert!(by.as_ptr() as usize % 8 == 0 && by.len() % 8 == 0, "built header is 8-aligned and padded");
    vassert!(le32(by, 0) == 0xE852_50D6 && le32(by, 4) == arch as u32, "magic and architecture");
    vassert!(le32(by, 8) as usize == by.len(), "length equals the byte length");
    vassert!(le32(by, 0).wrapping_add(le32(by, 4)).wrapping_add(le32(by, 8)).wrapping_add(le32(by, 12)) == 0, "checksum valid");
    let n = by.len();
    vassert!(le16(by, n - 8) == 0 && le16(by, n - 6) == 0 && le32(by, n - 4) == 8, "terminated by an end tag (type 0, flags 0, size 8) as the final 8 bytes");
}

// @harness props=C12 tier=quick panic=forbid builder=yes mem=20 timeout=1200
// @encodes multiboot2_header::Builder::{new,information_request_tag,build} InformationRequestHeaderTag::new new_boxed (image of the built header)
// @bound subset {information request} with 0..=3 symbolic requests, both architectures, both flag values
#[cfg_attr(kani, kani::proof)]
#[cfg_attr(kani, kani::unwind(12))]
pub fn c12_image_information_request() {
    let r: [u32; 3] = nd::any();
    let reqs = [MbiTagTypeId::new(r[0]), MbiTagTypeId::new(r[1]), MbiTagTypeId::new(r[2])];
    let n: usize = nd::any();
    nd::assume(n <= 3);
    let arch = if nd::any_bool() { HeaderTagISA::MIPS32 } else { HeaderTagISA::I386 };
    let fl = if nd::any_bool() { HeaderTagFlag::Optional } else { HeaderTagFlag::Required };
    let built = Builder::new(arch).information_request_tag(InformationRequestHeaderTag::new(fl, &reqs[..n])).build();
    let by = built.as_bytes();
    vassert!(by.len() == 16 + round8(8 + 4 * n) + 8, "byte length = header + padded tag + end tag");
    image_ok(&by, arch);
    vassert!(le16(&by, 16) == 1 && le16(&by, 18) == fl as u16 && le32(&by, 20) as usize == 8 + 4 * n, "information request tag header at offset 16");
    let mut same = true;
    let mut i = 0;
    while i < n {
        same &= le32(&by, 24 + 4 * i) == r[i];
        i += 1;
    }
    vassert!(same, "requests byte-identical");
    cover!(n == 1, "odd request count (padded tag)");
    cover!(n == 2, "even request count");
}

// @harness props=C12 tier=quick panic=forbid builder=yes mem=20 timeout=1200
// @encodes multiboot2_header::Builder::{new,address_tag,relocatable_tag,build} (image of the built header)
// @bound subset {address, relocatable} with symbolic field values, set in either call order; empty subset
#[cfg_attr(kani, kani::proof)]
#[cfg_attr(kani, kani::unwind(12))]
pub fn c12_image_sized_pair() {
    let a: [u32; 7] = nd::any();
    let arch = if nd::any_bool() { HeaderTagISA::MIPS32 } else { HeaderTagISA::I386 };
    let k: u8 = nd::any();
    nd::assume(k <= 2);
    let at = AddressHeaderTag::new(HeaderTagFlag::Required, a[0], a[1], a[2], a[3]);
    let rt = RelocatableHeaderTag::new(HeaderTagFlag::Optional, a[4], a[5], a[6], RelocatableHeaderTagPreference::Low);
    let built = match k {
        0 => Builder::new(arch).build(),
        1 => Builder::new(arch).address_tag(at).relocatable_tag(rt).build(),
        _ => Builder::new(arch).relocatable_tag(rt).address_tag(at).build(),
    };
    let by = built.as_bytes();
    vassert!(by.len() == if k == 0 { 24 } else { 16 + 24 + 24 + 8 }, "byte length");
    image_ok(&by, arch);
    if k != 0 {
        // the two tags in either order, each byte-identical to the supplied tag
        let first_is_addr = le16(&by, 16) == 2;
        let (oa, or) = if first_is_addr { (16, 40) } else { (40, 16) };
        vassert!(le16(&by, oa) == 2 && le16(&by, oa + 2) == 0 && le32(&by, oa + 4) == 24, "address tag header");
        vassert!(le32(&by, oa + 8) == a[0] && le32(&by, oa + 12) == a[1] && le32(&by, oa + 16) == a[2] && le32(&by, oa + 20) == a[3], "address tag fields");
        vassert!(le16(&by, or) == 10 && le16(&by, or + 2) == 1 && le32(&by, or + 4) == 24, "relocatable tag header");
        vassert!(le32(&by, or + 8) == a[4] && le32(&by, or + 12) == a[5] && le32(&by, or + 16) == a[6] && le32(&by, or + 20) == 1, "relocatable tag fields");
    }
    cover!(k == 2, "reverse call order");
    cover!(k == 0, "empty builder");
}
