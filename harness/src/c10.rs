//! C10 — header loading accepts exactly magic- and checksum-valid headers.

use crate::nd;
use crate::util::*;
use crate::{cover, vassert};
use multiboot2_common::MemoryError;
use multiboot2_header::{HeaderTagISA, LoadError, Multiboot2BasicHeader, Multiboot2Header};

#[derive(PartialEq, Eq, Clone, Copy)]
pub enum Spec {
    Ok,
    Null,
    Short,
    Padding,
    Magic,
    Checksum,
    Other,
}

pub fn spec_load(magic: u32, arch: u32, length: u32, checksum: u32) -> Spec {
    if length < 16 {
        Spec::Short
    } else if length % 8 != 0 {
        Spec::Padding
    } else if magic != 0xE852_50D6 {
        Spec::Magic
    } else if magic.wrapping_add(arch).wrapping_add(length).wrapping_add(checksum) != 0 {
        Spec::Checksum
    } else {
        Spec::Ok
    }
}

pub fn classify(r: &Result<Multiboot2Header, LoadError>) -> Spec {
    match r {
        Ok(_) => Spec::Ok,
        Err(LoadError::Memory(MemoryError::Null)) => Spec::Null,
        Err(LoadError::Memory(MemoryError::ShorterThanHeader)) => Spec::Short,
        Err(LoadError::Memory(MemoryError::MissingPadding)) => Spec::Padding,
        Err(LoadError::MagicNotFound) => Spec::Magic,
        Err(LoadError::ChecksumMismatch) => Spec::Checksum,
        Err(_) => Spec::Other,
    }
}

// @harness props=C10,C08,C09,C12 tier=quick panic=forbid features=both
// @encodes multiboot2_header::Multiboot2Header::load DynSizedStructure::ref_from_ptr Multiboot2BasicHeader::payload_len Header::total_size BytesRef::try_from ref_from_bytes verify_checksum calc_checksum header_magic arch length checksum
// @bound 64-byte object; magic, checksum and contents symbolic; architecture in {0,4}; declared length symbolic in 0..=64
// @assume architecture word holds a defined value (0 or 4) — the property's precondition
#[cfg_attr(kani, kani::proof)]
pub fn c10_load_le64() {
    load_le::<64>();
}

// @harness props=C10 tier=thorough panic=forbid timeout=1800
// @encodes as c10_load_le64
// @bound 136-byte object, declared length symbolic in 0..=136
#[cfg_attr(kani, kani::proof)]
pub fn c10_load_le136() {
    load_le::<136>();
}

// @harness props=C10 tier=thorough panic=forbid timeout=1800
// @encodes as c10_load_le64
// @bound 4096-byte object, declared length symbolic in 0..=4096
#[cfg_attr(kani, kani::proof)]
pub fn c10_load_le4096() {
    load_le::<4096>();
}

fn load_le<const N: usize>() {
    let b = Aligned::<N>::any();
    let magic = le32(&b.0, 0);
    let arch = le32(&b.0, 4);
    let length = le32(&b.0, 8);
    let checksum = le32(&b.0, 12);
    nd::assume(arch == 0 || arch == 4);
    nd::assume(length as usize <= N);
    let r = unsafe { Multiboot2Header::load(b.0.as_ptr().cast::<Multiboot2BasicHeader>()) };
    let spec = spec_load(magic, arch, length, checksum);
    let got = classify(&r);
    cover!(spec == Spec::Ok, "ok");
    cover!(spec == Spec::Short, "short");
    cover!(spec == Spec::Padding, "padding");
    cover!(spec == Spec::Magic, "magic");
    cover!(spec == Spec::Checksum, "checksum");
    cover!(spec == Spec::Ok && arch == 4, "ok mips");
    vassert!(got == spec, "load outcome equals the specified decision table");
    if let Ok(h) = r {
        vassert!(h.header_magic() == magic, "magic accessor");
        vassert!(h.arch() as u32 == arch, "arch accessor");
        vassert!(h.length() == length, "length accessor");
        vassert!(h.checksum() == checksum, "checksum accessor");
        vassert!(h.verify_checksum(), "verify_checksum on a loaded header");
    }
}

// @harness props=C10 tier=quick panic=forbid
// @encodes multiboot2_header::Multiboot2Header::load (null pointer)
// @bound the null pointer
#[cfg_attr(kani, kani::proof)]
pub fn c10_load_null() {
    let r = unsafe { Multiboot2Header::load(core::ptr::null()) };
    vassert!(matches!(r, Err(LoadError::Memory(MemoryError::Null))), "null pointer is reported as Null");
}

// @harness props=C10,C08 tier=quick panic=forbid
// @encodes multiboot2_header::Multiboot2Header::calc_checksum Multiboot2BasicHeader::calc_checksum
// @bound all 2^32 magics x both architectures x all 2^32 lengths (three symbolic words, no loop) — dev-profile arithmetic
#[cfg_attr(kani, kani::proof)]
pub fn c10_checksum_law() {
    let magic: u32 = nd::any();
    let length: u32 = nd::any();
    let mips = nd::any_bool();
    let arch = if mips { HeaderTagISA::MIPS32 } else { HeaderTagISA::I386 };
    let a = if mips { 4u32 } else { 0 };
    let c = Multiboot2Header::calc_checksum(magic, arch, length);
    let c2 = Multiboot2BasicHeader::calc_checksum(magic, arch, length);
    cover!(length > 0x2000_0000, "large length");
    cover!(magic == 0xE852_50D6, "real magic");
    vassert!(c == c2, "both entry points agree");
    vassert!(magic.wrapping_add(a).wrapping_add(length).wrapping_add(c) == 0, "magic + arch + length + checksum == 0 mod 2^32");
}
