//! Native probes: run the real, natively compiled crates on the concrete bytes
//! of a model the MIR engine's solver produced, and print one `PROBE: ...` line
//! that the engine compares with its prediction / the property.
#![cfg(not(kani))]

use crate::util::*;

#[repr(C, align(8))]
struct Big([u8; 1 << 17]);

fn aligned_copy(bytes: &[u8]) -> Box<Big> {
    let mut b: Box<Big> = unsafe { Box::new_zeroed().assume_init() };
    b.0[..bytes.len()].copy_from_slice(bytes);
    b
}

/// input: a whole boot information whose only tag is an ELF-sections tag.
/// Prints the iterator state `sections()` hands out, relative to the tag.
#[cfg(multiboot2_verif)]
pub fn elf_sections(bytes: &[u8]) {
    let b = aligned_copy(bytes);
    let bi = unsafe { multiboot2::BootInformation::load(b.0.as_ptr().cast()) };
    let bi = match bi {
        Ok(b) => b,
        Err(e) => {
            println!("PROBE: load-error {:?}", e);
            return;
        }
    };
    let tag = match bi.elf_sections_tag() {
        Some(t) => t,
        None => {
            println!("PROBE: no-elf-tag");
            return;
        }
    };
    let tag_addr = tag as *const _ as *const u8 as usize;
    let size = le32(&b.0, 12) as usize;
    let it = tag.sections();
    let (cur, rem, esz, strtab) = it.__verif_parts();
    let (cur, strtab) = (cur as usize, strtab as usize);
    let sec = tag_addr + 20;
    let seclen = size - 20;
    let entries_end = (rem as u128) * (esz as u128);
    let ok_entries = cur == sec && entries_end <= seclen as u128;
    let ok_strtab = rem == 0 || (strtab >= sec && (strtab - sec) as u128 + esz as u128 <= seclen as u128);
    println!(
        "PROBE: state cur=+{} remaining={} entry_size={} strtab={:+} section_bytes={} {}",
        cur.wrapping_sub(tag_addr),
        rem,
        esz,
        strtab as i128 - tag_addr as i128,
        seclen,
        if ok_entries && ok_strtab { "INSIDE" } else { "OUTSIDE the tag" }
    );
}

/// input: the buffer handed to `find_header`.
pub fn find_header(bytes: &[u8]) {
    use multiboot2_header::Multiboot2Header;
    let b = aligned_copy(bytes);
    let buf = &b.0[..bytes.len()];
    match Multiboot2Header::find_header(buf) {
        Ok(None) => println!("PROBE: Ok(None)"),
        Ok(Some((s, off))) => {
            let real_off = s.as_ptr() as usize - buf.as_ptr() as usize;
            println!("PROBE: Ok(Some(off={},len={})){}", off, s.len(), if real_off == off as usize { "" } else { " MISMATCH slice start" });
        }
        Err(e) => println!("PROBE: Err({:?})", e),
    }
}

/// input: one byte = the framebuffer type byte of an otherwise well-formed tag.
pub fn fb_type_byte(bytes: &[u8]) {
    let ty = bytes[0];
    let mut b = Aligned::<56>([0; 56]);
    put32(&mut b.0, 0, 56);
    put32(&mut b.0, 8, 8);
    put32(&mut b.0, 12, 40);
    b.0[8 + 29] = ty;
    put32(&mut b.0, 52, 8);
    let b = std::hint::black_box(b);
    let bi = unsafe { multiboot2::BootInformation::load(b.0.as_ptr().cast()) }.unwrap();
    match bi.framebuffer_tag() {
        Some(Ok(t)) => match t.buffer_type() {
            Ok(multiboot2::FramebufferType::Indexed { .. }) => println!("PROBE: KNOWN Indexed"),
            Ok(multiboot2::FramebufferType::RGB { .. }) => println!("PROBE: KNOWN RGB"),
            Ok(multiboot2::FramebufferType::Text) => println!("PROBE: KNOWN Text"),
            Err(e) => println!("PROBE: Unknown({})", e),
        },
        Some(Err(e)) => println!("PROBE: Unknown({})", e),
        None => println!("PROBE: none"),
    }
}

/// input: one byte = the VBE memory-model byte.
pub fn vbe_memory_model(bytes: &[u8]) {
    let mut b = Box::new(Aligned::<800>([0; 800]));
    put32(&mut b.0, 0, 800);
    put32(&mut b.0, 8, 7);
    put32(&mut b.0, 12, 784);
    b.0[8 + 528 + 27] = bytes[0];
    put32(&mut b.0, 796, 8);
    let b = std::hint::black_box(b);
    let bi = unsafe { multiboot2::BootInformation::load(b.0.as_ptr().cast()) }.unwrap();
    let t = bi.vbe_info_tag().unwrap();
    let m = t.mode_info();
    println!("PROBE: memory_model as u8 = {} ({:?})", m.memory_model as u8, m.memory_model);
}

/// input: one byte per header-builder slot (declaration order, 0/1).
#[cfg(feature = "builder")]
pub fn header_builder(bytes: &[u8]) {
    use multiboot2_header::*;
    let on = |i: usize| bytes.get(i).copied().unwrap_or(0) != 0;
    let mut bld = Builder::new(HeaderTagISA::I386);
    let mut expect: Vec<u16> = Vec::new();
    if on(0) {
        bld = bld.information_request_tag(InformationRequestHeaderTag::new(HeaderTagFlag::Required, &[MbiTagTypeId::new(1)]));
        expect.push(1);
    }
    if on(1) {
        bld = bld.address_tag(AddressHeaderTag::new(HeaderTagFlag::Required, 1, 2, 3, 4));
        expect.push(2);
    }
    if on(2) {
        bld = bld.entry_tag(EntryAddressHeaderTag::new(HeaderTagFlag::Required, 5));
        expect.push(3);
    }
    if on(3) {
        bld = bld.console_tag(ConsoleHeaderTag::new(HeaderTagFlag::Required, ConsoleHeaderTagFlags::EgaTextSupported));
        expect.push(4);
    }
    if on(4) {
        bld = bld.framebuffer_tag(FramebufferHeaderTag::new(HeaderTagFlag::Optional, 6, 7, 8));
        expect.push(5);
    }
    if on(5) {
        bld = bld.module_align_tag(ModuleAlignHeaderTag::new(HeaderTagFlag::Required));
        expect.push(6);
    }
    if on(6) {
        bld = bld.efi_bs_tag(EfiBootServiceHeaderTag::new(HeaderTagFlag::Required));
        expect.push(7);
    }
    if on(7) {
        bld = bld.efi_32_tag(EntryEfi32HeaderTag::new(HeaderTagFlag::Required, 9));
        expect.push(8);
    }
    if on(8) {
        bld = bld.efi_64_tag(EntryEfi64HeaderTag::new(HeaderTagFlag::Required, 10));
        expect.push(9);
    }
    if on(9) {
        bld = bld.relocatable_tag(RelocatableHeaderTag::new(HeaderTagFlag::Required, 11, 12, 13, RelocatableHeaderTagPreference::High));
        expect.push(10);
    }
    expect.push(0);
    let built = bld.build();
    let bytes_ = built.as_bytes();
    let h = match unsafe { Multiboot2Header::load(bytes_.as_ptr().cast()) } {
        Ok(h) => h,
        Err(e) => {
            println!("PROBE: MISMATCH built header does not load: {:?}", e);
            return;
        }
    };
    let got: Vec<u16> = h.iter().map(|t| t.header().typ() as u16).collect();
    let mut g = got.clone();
    let mut e = expect.clone();
    let ends_ok = got.last() == Some(&0) && got.iter().filter(|t| **t == 0).count() == 1;
    g.sort();
    e.sort();
    println!("PROBE: {} tags={:?} expected={:?}", if g == e && ends_ok { "MATCH" } else { "MISMATCH" }, got, expect);
}

/// input: one byte per boot-information-builder slot (declaration order; 0/1, or the element count for the Vec slots).
#[cfg(feature = "builder")]
pub fn mbi_builder(bytes: &[u8]) {
    use multiboot2::*;
    let n = |i: usize| bytes.get(i).copied().unwrap_or(0) as usize;
    let mut bld = Builder::new();
    let mut expect: Vec<u32> = Vec::new();
    if n(0) != 0 {
        bld = bld.cmdline(CommandLineTag::new("a"));
        expect.push(1);
    }
    if n(1) != 0 {
        bld = bld.bootloader(BootLoaderNameTag::new("b"));
        expect.push(2);
    }
    for i in 0..n(2) {
        bld = bld.add_module(ModuleTag::new(i as u32, i as u32 + 1, "m"));
        expect.push(3);
    }
    if n(3) != 0 {
        bld = bld.meminfo(BasicMemoryInfoTag::new(1, 2));
        expect.push(4);
    }
    if n(4) != 0 {
        bld = bld.bootdev(BootdevTag::new(1, 2, 3));
        expect.push(5);
    }
    if n(5) != 0 {
        bld = bld.mmap(MemoryMapTag::new(&[]));
        expect.push(6);
    }
    if n(6) != 0 {
        bld = bld.vbe(VBEInfoTag::new(0, 0, 0, 0, VBEControlInfo::default(), VBEModeInfo::default()));
        expect.push(7);
    }
    if n(7) != 0 {
        bld = bld.framebuffer(FramebufferTag::new(0, 1, 2, 3, 4, FramebufferType::Text));
        expect.push(8);
    }
    if n(8) != 0 {
        bld = bld.elf_sections(ElfSectionsTag::new(0, 0, 0, &[]));
        expect.push(9);
    }
    if n(9) != 0 {
        bld = bld.apm(ApmTag::new(1, 2, 3, 4, 5, 6, 7, 8, 9));
        expect.push(10);
    }
    if n(10) != 0 {
        bld = bld.efi32(EFISdt32Tag::new(1));
        expect.push(11);
    }
    if n(11) != 0 {
        bld = bld.efi64(EFISdt64Tag::new(1));
        expect.push(12);
    }
    for i in 0..n(12) {
        bld = bld.add_smbios(SmbiosTag::new(i as u8, 0, &[1, 2, 3]));
        expect.push(13);
    }
    if n(13) != 0 {
        bld = bld.rsdpv1(RsdpV1Tag::new(0, *b"abcdef", 0, 1));
        expect.push(14);
    }
    if n(14) != 0 {
        bld = bld.rsdpv2(RsdpV2Tag::new(0, *b"abcdef", 0, 1, 36, 2, 0));
        expect.push(15);
    }
    if n(15) != 0 {
        bld = bld.network(NetworkTag::new(&[1, 2, 3]));
        expect.push(16);
    }
    if n(16) != 0 {
        bld = bld.efi_mmap(EFIMemoryMapTag::new_from_map(48, 1, &[0; 48]));
        expect.push(17);
    }
    if n(17) != 0 {
        bld = bld.efi_bs(EFIBootServicesNotExitedTag::new());
        expect.push(18);
    }
    if n(18) != 0 {
        bld = bld.efi32_ih(EFIImageHandle32Tag::new(1));
        expect.push(19);
    }
    if n(19) != 0 {
        bld = bld.efi64_ih(EFIImageHandle64Tag::new(1));
        expect.push(20);
    }
    if n(20) != 0 {
        bld = bld.image_load_addr(ImageLoadPhysAddrTag::new(1));
        expect.push(21);
    }
    for i in 0..n(21) {
        let t: Box<multiboot2_common::DynSizedStructure<TagHeader>> = multiboot2_common::new_boxed(TagHeader::new(TagType::Custom(0x2000 - i as u32), 0), &[&[i as u8]]);
        bld = bld.add_custom_tag(t);
        expect.push(0x2000 - i as u32);
    }
    expect.push(0);
    let built = bld.build();
    let bytes_ = built.as_bytes();
    let bi = match unsafe { BootInformation::load(bytes_.as_ptr().cast()) } {
        Ok(b) => b,
        Err(e) => {
            println!("PROBE: MISMATCH built boot information does not load: {:?}", e);
            return;
        }
    };
    let got: Vec<u32> = bi.tags().map(|t| u32::from(t.header().typ)).collect();
    let mut g = got.clone();
    let mut e = expect.clone();
    let ends_ok = got.last() == Some(&0) && got.iter().filter(|t| **t == 0).count() == 1;
    g.sort();
    e.sort();
    // repeatable kinds keep their call order (modules / SMBIOS are told apart by their first payload byte)
    let custom_got: Vec<u32> = got.iter().copied().filter(|t| *t > 21).collect();
    let custom_exp: Vec<u32> = expect.iter().copied().filter(|t| *t > 21).collect();
    let mods: Vec<u32> = bi.module_tags().map(|m| m.start_address()).collect();
    let order_ok = custom_got == custom_exp && mods.windows(2).all(|w| w[0] < w[1]);
    println!("PROBE: {} tags={:?} expected={:?}", if g == e && ends_ok && order_ok { "MATCH" } else { "MISMATCH" }, got, expect);
}

pub fn run(name: &str, bytes: &[u8]) -> bool {
    match name {
        #[cfg(multiboot2_verif)]
        "elf_sections" => elf_sections(bytes),
        "find_header" => find_header(bytes),
        "fb_type_byte" => fb_type_byte(bytes),
        "vbe_memory_model" => vbe_memory_model(bytes),
        #[cfg(feature = "builder")]
        "header_builder" => header_builder(bytes),
        #[cfg(feature = "builder")]
        "mbi_builder" => mbi_builder(bytes),
        _ => return false,
    }
    true
}
