//! Solver harnesses for rust-osdev/multiboot2 (see /verif/DESIGN.md).
//!
//! Every `#[kani::proof]` function here is also an ordinary function: the
//! native `replay` binary calls it with the solver's assignment (module `nd`).
//!
//! Harness metadata lives in `// @harness` comment blocks parsed by
//! `/verif/bin/vcheck`.
#![allow(unused, clippy::all, deprecated)]

#[cfg(feature = "builder")]
extern crate alloc;

pub mod nd;
pub mod util;
pub mod usertypes;

pub mod c01;
pub mod c02;
pub mod c03;
pub mod c04;
pub mod c05;
pub mod c07;
pub mod c08;
pub mod c09;
pub mod c10;
#[cfg(feature = "builder")]
pub mod c12;
pub mod c13;
pub mod c14;
pub mod c15;
#[cfg(feature = "builder")]
pub mod c16;
pub mod c17;
pub mod c18;
#[cfg(multiboot2_verif)]
pub mod c19;
pub mod c20;
pub mod dbg;

#[cfg(not(kani))]
pub mod probes;
#[cfg(not(kani))]
pub mod registry;
