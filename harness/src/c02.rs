//! C02 — loading accepts exactly the well-formed boot informations.

use crate::nd;
use crate::util::*;
use crate::{cover, vassert};
use multiboot2::{BootInformation, BootInformationHeader, LoadError};
use multiboot2_common::MemoryError;

#[derive(PartialEq, Eq, Clone, Copy)]
pub enum Spec {
    Ok,
    Null,
    Short,
    Padding,
    NoEnd,
}

/// The property's decision table, written from the statement (not the code).
pub fn spec_load(total: u32, last8: impl Fn() -> (u32, u32)) -> Spec {
    if total < 8 {
        Spec::Short
    } else if total % 8 != 0 {
        Spec::Padding
    } else {
        let (t, s) = last8();
        if t == 0 && s == 8 {
            Spec::Ok
        } else {
            Spec::NoEnd
        }
    }
}

pub fn classify(r: &Result<BootInformation, LoadError>) -> Spec {
    match r {
        Ok(_) => Spec::Ok,
        Err(LoadError::Memory(MemoryError::Null)) => Spec::Null,
        Err(LoadError::Memory(MemoryError::ShorterThanHeader)) => Spec::Short,
        Err(LoadError::Memory(MemoryError::MissingPadding)) => Spec::Padding,
        Err(LoadError::NoEndTag) => Spec::NoEnd,
        // any other error is outside the specified vocabulary
        Err(_) => Spec::Null,
    }
}

// @harness props=C02,C08,C01 tier=quick panic=forbid features=both
// @encodes multiboot2::BootInformation::load DynSizedStructure::ref_from_ptr BootInformationHeader::payload_len Header::total_size BytesRef::try_from DynSizedStructure::ref_from_bytes BootInformation::has_valid_end_tag start_address end_address total_size as_ptr
// @bound 64-byte object, declared total_size symbolic in 0..=64 (all residues), reserved word and all contents symbolic
#[cfg_attr(kani, kani::proof)]
pub fn c02_load_le64() {
    load_le::<64>();
}

// @harness props=C02 tier=thorough panic=forbid timeout=1800
// @encodes as c02_load_le64
// @bound 136-byte object, declared total_size symbolic in 0..=136
#[cfg_attr(kani, kani::proof)]
pub fn c02_load_le136() {
    load_le::<136>();
}

// @harness props=C02 tier=thorough panic=forbid timeout=1800
// @encodes as c02_load_le64
// @bound 4096-byte object, declared total_size symbolic in 0..=4096
#[cfg_attr(kani, kani::proof)]
pub fn c02_load_le4096() {
    load_le::<4096>();
}

fn load_le<const N: usize>() {
    let b = Aligned::<N>::any();
    let total = le32(&b.0, 0);
    nd::assume(total as usize <= N);
    let ptr = b.0.as_ptr();
    let r = unsafe { BootInformation::load(ptr.cast::<BootInformationHeader>()) };
    let spec = spec_load(total, || {
        let t = total as usize;
        (le32(&b.0, t - 8), le32(&b.0, t - 4))
    });
    let got = classify(&r);
    cover!(spec == Spec::Ok, "ok");
    cover!(spec == Spec::Short, "short");
    cover!(spec == Spec::Padding, "padding");
    cover!(spec == Spec::NoEnd, "noend");
    cover!(spec == Spec::Ok && total == 16, "minimal");
    vassert!(got == spec, "load outcome equals the specified decision table");
    if let Ok(bi) = r {
        vassert!(bi.start_address() == ptr as usize, "start address is the pointer");
        vassert!(bi.end_address() == ptr as usize + total as usize, "end address is pointer + declared size");
        vassert!(bi.total_size() == total as usize, "total size is the declared size");
        vassert!(bi.as_ptr() as usize == ptr as usize, "as_ptr is the pointer");
    }
}

// @harness props=C02 tier=quick panic=forbid
// @encodes multiboot2::BootInformation::load (null pointer)
// @bound the null pointer
#[cfg_attr(kani, kani::proof)]
pub fn c02_load_null() {
    let r = unsafe { BootInformation::load(core::ptr::null()) };
    vassert!(matches!(r, Err(LoadError::Memory(MemoryError::Null))), "null pointer is reported as Null");
}
