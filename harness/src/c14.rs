//! C14 — raw bytes become a structure only when aligned, padded and
//! size-consistent.

use crate::nd;
use crate::util::*;
use crate::{cover, vassert};
use multiboot2_common::{increase_to_alignment, BytesRef, DynSizedStructure, Header, MemoryError};

#[derive(PartialEq, Eq, Clone, Copy)]
enum Spec {
    Ok,
    Short,
    Align,
    Padding,
    Size,
}

const BUF: usize = 48;
const MAXLEN: usize = 40;

/// `declared`: where the header kind stores its total size; `hsz` its size.
fn generic<H: Header>(hsz: usize, size_off: usize, valid_enums: fn(&[u8]) -> bool, small: bool) -> (Spec, usize, usize) {
    let b = Aligned::<BUF>::any();
    let a: usize = nd::any();
    let len: usize = nd::any();
    nd::assume(a < 8);
    nd::assume(len <= MAXLEN);
    let slice = &b.0[a..a + len];
    let declared = if len >= size_off + 4 { le32(slice, size_off) as usize } else { 0 };
    if len >= hsz {
        nd::assume(valid_enums(slice));
        if small {
            nd::assume(declared < hsz);
        } else {
            nd::assume(declared >= hsz);
        }
    }
    let spec = if len < hsz {
        Spec::Short
    } else if a % 8 != 0 {
        Spec::Align
    } else if len % 8 != 0 {
        Spec::Padding
    } else if declared > len {
        Spec::Size
    } else {
        Spec::Ok
    };
    // first stage on its own
    let br = BytesRef::<H>::try_from(slice);
    let spec_br = match spec {
        Spec::Size | Spec::Ok => Spec::Ok,
        s => s,
    };
    let got_br = match &br {
        Ok(_) => Spec::Ok,
        Err(MemoryError::ShorterThanHeader) => Spec::Short,
        Err(MemoryError::WrongAlignment) => Spec::Align,
        Err(MemoryError::MissingPadding) => Spec::Padding,
        Err(_) => Spec::Size,
    };
    vassert!(got_br == spec_br, "BytesRef::try_from follows the specified precedence");
    if let Ok(br) = &br {
        vassert!(br.as_ptr() == slice.as_ptr() && br.len() == len, "BytesRef views exactly the slice");
    }

    let r = DynSizedStructure::<H>::ref_from_slice(slice);
    let got = match &r {
        Ok(_) => Spec::Ok,
        Err(MemoryError::ShorterThanHeader) => Spec::Short,
        Err(MemoryError::WrongAlignment) => Spec::Align,
        Err(MemoryError::MissingPadding) => Spec::Padding,
        Err(MemoryError::InvalidReportedTotalSize) => Spec::Size,
        Err(_) => Spec::Short,
    };
    if small {
        // a declaration below the header size may also be refused as an invalid size
        vassert!(got == spec || (spec == Spec::Ok && got == Spec::Size), "ref_from_slice outcome follows the specified precedence");
    } else {
        vassert!(got == spec, "ref_from_slice outcome follows the specified precedence");
    }
    if let Ok(s) = r {
        let base = slice.as_ptr() as usize;
        vassert!(s as *const DynSizedStructure<H> as *const u8 as usize == base, "structure starts at the slice's address");
        vassert!(s.header() as *const H as usize == base, "header is the slice's first bytes");
        let p = s.payload();
        vassert!(p.as_ptr() as usize == base + hsz, "payload directly follows the header");
        if small {
            vassert!(p.len() == 0, "a declaration smaller than the header never yields more than the header");
            vassert!(core::mem::size_of_val(s) == round8(hsz), "in-memory size is the header only");
        } else {
            vassert!(p.len() == declared - hsz, "payload length is declared size minus header size");
            let sv = core::mem::size_of_val(s);
            vassert!(sv == round8(declared), "in-memory size is the declared size rounded up to 8");
            vassert!(sv <= len, "in-memory size never exceeds the slice");
            let mut i = 0;
            let mut same = true;
            while i < p.len() {
                same &= p[i] == slice[hsz + i];
                i += 1;
            }
            vassert!(same, "payload equals the slice's bytes");
        }
    }
    (spec, declared, len)
}

fn covers_big(r: (Spec, usize, usize), hsz: usize) {
    let (spec, declared, len) = r;
    cover!(spec == Spec::Ok, "ok");
    cover!(spec == Spec::Short, "short");
    cover!(spec == Spec::Align, "misaligned");
    cover!(spec == Spec::Padding, "unpadded");
    cover!(spec == Spec::Size, "oversized declaration");
    cover!(spec == Spec::Ok && declared % 8 != 0, "ok with padding");
    cover!(spec == Spec::Size && declared <= len + hsz, "declaration one header too large");
}

fn no_enums(_: &[u8]) -> bool {
    true
}
fn header_tag_enums(s: &[u8]) -> bool {
    le16(s, 0) <= 10 && le16(s, 2) <= 1
}
fn basic_header_enums(s: &[u8]) -> bool {
    let a = le32(s, 4);
    a == 0 || a == 4
}

// @harness props=C14,C08 tier=quick panic=forbid features=both
// @encodes multiboot2_common::BytesRef::<TagHeader>::try_from DynSizedStructure::<TagHeader>::ref_from_slice ref_from_bytes header payload TagHeader::payload_len
// @bound slice = buf[a..a+len], a in 0..8, len in 0..=40, declared size in 8..2^32, contents symbolic
#[cfg_attr(kani, kani::proof)]
#[cfg_attr(kani, kani::unwind(34))]
pub fn c14_tagheader() {
    covers_big(generic::<multiboot2::TagHeader>(8, 4, no_enums, false), 8);
}

// @harness props=C14 tier=quick panic=allow
// @encodes DynSizedStructure::<TagHeader>::ref_from_slice with a declared size below the header size
// @bound as c14_tagheader, declared size in 0..8 (controlled panic allowed)
#[cfg_attr(kani, kani::proof)]
#[cfg_attr(kani, kani::unwind(34))]
pub fn c14_tagheader_small() {
    let _ = generic::<multiboot2::TagHeader>(8, 4, no_enums, true);
}

// @harness props=C14,C08 tier=quick panic=forbid features=both
// @encodes BytesRef::<BootInformationHeader>::try_from DynSizedStructure::<BootInformationHeader>::ref_from_slice BootInformationHeader::payload_len total_size
// @bound slice = buf[a..a+len], a in 0..8, len in 0..=40, declared size in 8..2^32
#[cfg_attr(kani, kani::proof)]
#[cfg_attr(kani, kani::unwind(34))]
pub fn c14_mbi_header() {
    covers_big(generic::<multiboot2::BootInformationHeader>(8, 0, no_enums, false), 8);
}

// @harness props=C14 tier=quick panic=allow
// @encodes DynSizedStructure::<BootInformationHeader>::ref_from_slice with a declared size below the header size
// @bound declared size in 0..8
#[cfg_attr(kani, kani::proof)]
#[cfg_attr(kani, kani::unwind(34))]
pub fn c14_mbi_header_small() {
    let _ = generic::<multiboot2::BootInformationHeader>(8, 0, no_enums, true);
}

// @harness props=C14,C08 tier=quick panic=forbid features=both
// @encodes BytesRef::<HeaderTagHeader>::try_from DynSizedStructure::<HeaderTagHeader>::ref_from_slice HeaderTagHeader::payload_len
// @bound slice = buf[a..a+len], a in 0..8, len in 0..=40, declared size in 8..2^32; tag type <= 10, flags <= 1
// @assume enumerated header-tag fields hold defined values
#[cfg_attr(kani, kani::proof)]
#[cfg_attr(kani, kani::unwind(34))]
pub fn c14_header_tag_header() {
    covers_big(generic::<multiboot2_header::HeaderTagHeader>(8, 4, header_tag_enums, false), 8);
}

// @harness props=C14 tier=quick panic=allow
// @encodes DynSizedStructure::<HeaderTagHeader>::ref_from_slice with a declared size below the header size
// @bound declared size in 0..8
#[cfg_attr(kani, kani::proof)]
#[cfg_attr(kani, kani::unwind(34))]
pub fn c14_header_tag_header_small() {
    let _ = generic::<multiboot2_header::HeaderTagHeader>(8, 4, header_tag_enums, true);
}

// @harness props=C14,C08 tier=quick panic=forbid features=both
// @encodes BytesRef::<Multiboot2BasicHeader>::try_from DynSizedStructure::<Multiboot2BasicHeader>::ref_from_slice Multiboot2BasicHeader::payload_len
// @bound slice = buf[a..a+len], a in 0..8, len in 0..=40, declared length in 16..2^32; architecture in {0,4}
// @assume architecture word holds a defined value
#[cfg_attr(kani, kani::proof)]
#[cfg_attr(kani, kani::unwind(34))]
pub fn c14_basic_header() {
    covers_big(generic::<multiboot2_header::Multiboot2BasicHeader>(16, 8, basic_header_enums, false), 16);
}

// @harness props=C14 tier=quick panic=allow
// @encodes DynSizedStructure::<Multiboot2BasicHeader>::ref_from_slice with a declared length below the header size
// @bound declared length in 0..16
#[cfg_attr(kani, kani::proof)]
#[cfg_attr(kani, kani::unwind(34))]
pub fn c14_basic_header_small() {
    let _ = generic::<multiboot2_header::Multiboot2BasicHeader>(16, 8, basic_header_enums, true);
}

// @harness props=C14,C03 tier=quick panic=forbid
// @encodes multiboot2_common::increase_to_alignment
// @bound all arguments below 2^32 (one symbolic word, no loop)
#[cfg_attr(kani, kani::proof)]
pub fn c14_rounding() {
    let x: u32 = nd::any();
    let x = x as usize;
    let r = increase_to_alignment(x);
    cover!(x % 8 == 0 && x > 0, "already aligned");
    cover!(x % 8 == 7, "residue 7");
    vassert!(r >= x && r % 8 == 0 && r - x < 8, "least multiple of 8 not below the argument");
}
