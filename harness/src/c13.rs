//! C13 — searching a binary image for the header (small-buffer half, decided
//! by Kani on the real `windows(4).position(..)` loop; the general case — any
//! length, the 8192 limit — is decided by the MIR engine, target `find_header`).

use crate::nd;
use crate::util::*;
use crate::{cover, noreturn, vassert};
use multiboot2_common::MemoryError;
use multiboot2_header::{LoadError, Multiboot2Header};

const MAGIC: [u8; 4] = [0xD6, 0x50, 0x52, 0xE8];

fn small<const N: usize>() {
    let b = Aligned::<N>::any();
    let len: usize = nd::any();
    nd::assume(len <= N);
    let buf = &b.0[..len];
    // the property's case analysis
    let mut first: Option<usize> = None;
    let mut i = 0;
    while i + 4 <= len {
        if first.is_none() && b.0[i] == MAGIC[0] && b.0[i + 1] == MAGIC[1] && b.0[i + 2] == MAGIC[2] && b.0[i + 3] == MAGIC[3] {
            first = Some(i);
        }
        i += 1;
    }
    let r = Multiboot2Header::find_header(buf);
    match first {
        None => vassert!(matches!(r, Ok(None)), "no magic in the buffer: Ok(None)"),
        Some(i) => {
            let readable = i + 12 <= len;
            let stored = if readable { le32(&b.0, i + 8) as usize } else { 0 };
            let ok = i % 8 == 0 && readable && i + stored <= len;
            cover!(ok, "complete aligned header");
            cover!(i % 8 != 0, "misaligned first occurrence");
            cover!(i % 8 == 0 && readable && i + stored > len, "truncated header");
            match r {
                Ok(Some((s, off))) => {
                    vassert!(ok, "a header is returned only when aligned and inside the buffer");
                    vassert!(off as usize == i && s.as_ptr() as usize == b.addr() + i && s.len() == stored, "exactly the sub-slice from the first occurrence to its stored length");
                }
                Ok(None) => vassert!(false, "the magic occurs: Ok(None) is wrong"),
                Err(_) => vassert!(!ok, "an error only when the first occurrence is misaligned or the header truncated"),
            }
        }
    }
}

// @harness props=C13 tier=quick panic=forbid
// @encodes multiboot2_header::Multiboot2Header::find_header (real scan loop: <[u8]>::windows, Iterator::position, closure)
// @bound buffers of every length 0..=32 with every byte symbolic (all magic positions, stored lengths 0..2^32)
#[cfg_attr(kani, kani::proof)]
#[cfg_attr(kani, kani::unwind(34))]
pub fn c13_small_32() {
    small::<32>();
}

// @harness props=C13 tier=thorough panic=forbid timeout=3000
// @encodes as c13_small_32
// @bound buffers of every length 0..=64
#[cfg_attr(kani, kani::proof)]
#[cfg_attr(kani, kani::unwind(66))]
pub fn c13_small_64() {
    small::<64>();
}
