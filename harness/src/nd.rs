//! Nondeterminism shim: `kani::any()` under the model checker, bytes from a
//! replay file natively, so the *same* harness body that the solver decided is
//! what runs against the natively compiled crates when a counterexample is
//! replayed (dev profile, release profile, Miri).

#[cfg(not(kani))]
mod native {
    use std::cell::RefCell;
    use std::collections::VecDeque;
    thread_local! {
        pub static QUEUE: RefCell<VecDeque<Vec<u8>>> = RefCell::new(VecDeque::new());
        pub static COVERS: RefCell<Vec<String>> = RefCell::new(Vec::new());
    }
}

/// Marker for types for which every bit pattern of `size_of::<T>()` bytes is a
/// valid value (what `kani::any()` ranges over coincides with "all bytes").
pub unsafe trait Plain: Copy + 'static {}
macro_rules! plain { ($($t:ty),*) => { $(unsafe impl Plain for $t {})* } }
plain!(u8, u16, u32, u64, usize, i8, i16, i32, i64, isize);
unsafe impl<const N: usize> Plain for [u8; N] {}
unsafe impl<const N: usize> Plain for [u16; N] {}
unsafe impl<const N: usize> Plain for [u32; N] {}
unsafe impl<const N: usize> Plain for [u64; N] {}

#[cfg(kani)]
pub fn any<T: Plain + kani::Arbitrary>() -> T {
    kani::any()
}

#[cfg(not(kani))]
pub fn any<T: Plain>() -> T {
    // Kani's concrete playback lists one byte vector per primitive `any()`
    // (arrays element by element): concatenate until `T` is filled.
    let need = core::mem::size_of::<T>();
    let mut acc: Vec<u8> = Vec::with_capacity(need);
    while acc.len() < need {
        let v = native::QUEUE.with(|q| q.borrow_mut().pop_front());
        match v {
            Some(v) => acc.extend_from_slice(&v),
            None => {
                // A replay that runs out of values took a different path than
                // the solver's trace: not a reproduction.
                eprintln!("REPLAY-DIVERGED: nondet queue exhausted");
                std::process::exit(3);
            }
        }
    }
    if acc.len() != need {
        eprintln!("REPLAY-DIVERGED: expected {} bytes, replay has {}", need, acc.len());
        std::process::exit(3);
    }
    unsafe { core::ptr::read_unaligned(acc.as_ptr().cast::<T>()) }
}

#[cfg(kani)]
pub fn any_bool() -> bool {
    kani::any()
}
#[cfg(not(kani))]
pub fn any_bool() -> bool {
    any::<u8>() & 1 != 0
}

#[cfg(kani)]
#[inline(always)]
pub fn assume(c: bool) {
    kani::assume(c)
}
#[cfg(not(kani))]
pub fn assume(c: bool) {
    if !c {
        eprintln!("REPLAY-DIVERGED: assumption violated");
        std::process::exit(3);
    }
}

#[cfg(not(kani))]
pub fn load_queue(vals: Vec<Vec<u8>>) {
    native::QUEUE.with(|q| *q.borrow_mut() = vals.into());
}
#[cfg(not(kani))]
pub fn note_cover(s: &str) {
    native::COVERS.with(|c| c.borrow_mut().push(s.to_string()));
}
#[cfg(not(kani))]
pub fn covers() -> Vec<String> {
    native::COVERS.with(|c| c.borrow().clone())
}

/// Vacuity witness: must be reported SATISFIED by the model checker.
#[macro_export]
macro_rules! cover {
    ($c:expr, $m:literal) => {{
        #[cfg(kani)]
        kani::cover!($c, $m);
        #[cfg(not(kani))]
        if $c {
            $crate::nd::note_cover($m);
        }
    }};
}

/// Harness-level assertion.  The runner recognises harness assertions by their
/// *location* (this crate's `src/`), library panics by theirs (`/repo`, core).
#[macro_export]
macro_rules! vassert {
    ($c:expr, $m:literal) => {{
        let __ok: bool = $c;
        // witness twin: Kani emits a concrete playback for a satisfied cover even where it
        // emits none for the failed assertion; the runner pairs the two by source location
        #[cfg(kani)]
        kani::cover!(!__ok, $m);
        assert!(__ok, $m);
    }};
}

/// The call above was expected to end in a controlled panic.
#[macro_export]
macro_rules! noreturn {
    ($m:literal) => {{
        #[cfg(kani)]
        kani::cover!(true, $m);
        panic!($m)
    }};
}
