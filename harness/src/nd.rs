//! Nondeterminism shim: `kani::any()` under the model checker, bytes from a
//! replay file natively, so the *same* harness body that the solver decided is
//! what runs against the natively compiled crates when a counterexample is
//! replayed (dev profile, release profile, Miri).

#[cfg(not(kani))]
mod native {
    use std::cell::RefCell;
    use std::collections::VecDeque;
    thread_local! {
        pub static QUEUE: RefCell<VecDeque<Vec<u8>>> = RefCell::new(VecDeque::new());
        pub static COVERS: RefCell<Vec<String>> = RefCell::new(Vec::new());
        pub static FILL: std::cell::Cell<Option<u8>> = std::cell::Cell::new(None);
    }
}

/// Marker for types for which every bit pattern of `size_of::<T>()` bytes is a
/// valid value (what `kani::any()` ranges over coincides with "all bytes").
pub unsafe trait Plain: Copy + 'static {}
macro_rules! plain { ($($t:ty),*) => { $(unsafe impl Plain for $t {})* } }
plain!(u8, u16, u32, u64, usize, i8, i16, i32, i64, isize);
unsafe impl<const N: usize> Plain for [u8; N] {}
unsafe impl<const N: usize> Plain for [u16; N] {}
unsafe impl<const N: usize> Plain for [u32; N] {}
unsafe impl<const N: usize> Plain for [u64; N] {}

#[cfg(kani)]
pub fn any<T: Plain + kani::Arbitrary>() -> T {
    kani::any()
}

#[cfg(not(kani))]
pub fn any<T: Plain>() -> T {
    // Kani's concrete playback lists one byte vector per primitive `any()`
    // (arrays element by element): concatenate until `T` is filled.
    let need = core::mem::size_of::<T>();
    let mut acc: Vec<u8> = Vec::with_capacity(need);
    while acc.len() < need {
        let v = native::QUEUE.with(|q| q.borrow_mut().pop_front());
        match v {
            Some(v) => acc.extend_from_slice(&v),
            None if native::FILL.with(|f| f.get()).is_some() => {
                // fill mode (used when the model checker printed no input vector): constant bytes
                let b = native::FILL.with(|f| f.get()).unwrap();
                while acc.len() < need {
                    acc.push(b);
                }
            }
            None => {
                // A replay that runs out of values took a different path than
                // the solver's trace: not a reproduction.
                eprintln!("REPLAY-DIVERGED: nondet queue exhausted");
                std::process::exit(3);
            }
        }
    }
    if acc.len() != need {
        eprintln!("REPLAY-DIVERGED: expected {} bytes, replay has {}", need, acc.len());
        std::process::exit(3);
    }
    unsafe { core::ptr::read_unaligned(acc.as_ptr().cast::<T>()) }
}

#[cfg(kani)]
pub fn any_bool() -> bool {
    kani::any()
}
#[cfg(not(kani))]
pub fn any_bool() -> bool {
    any::<u8>() & 1 != 0
}

#[cfg(kani)]
#[inline(always)]
pub fn assume(c: bool) {
    kani::assume(c)
}
#[cfg(not(kani))]
pub fn assume(c: bool) {
    if !c {
        eprintln!("REPLAY-DIVERGED: assumption violated");
        std::process::exit(3);
    }
}

#[cfg(not(kani))]
pub fn load_queue(vals: Vec<Vec<u8>>) {
    native::QUEUE.with(|q| *q.borrow_mut() = vals.into());
}
#[cfg(not(kani))]
pub fn set_fill(b: u8) {
    native::FILL.with(|f| f.set(Some(b)));
}
#[cfg(not(kani))]
pub fn note_cover(s: &str) {
    native::COVERS.with(|c| c.borrow_mut().push(s.to_string()));
}
#[cfg(not(kani))]
pub fn covers() -> Vec<String> {
    native::COVERS.with(|c| c.borrow().clone())
}

/// Native allocation tracker (installed as the replay binary's global allocator): remembers the
/// layout every live block was allocated with and flags a deallocation with a different layout.
#[cfg(not(kani))]
pub mod alloc_track {
    use std::alloc::{GlobalAlloc, Layout, System};
    use std::sync::atomic::{AtomicUsize, Ordering::SeqCst};
    const N: usize = 256;
    const Z: AtomicUsize = AtomicUsize::new(0);
    static PTR: [AtomicUsize; N] = [Z; N];
    static SIZE: [AtomicUsize; N] = [Z; N];
    static ALIGN: [AtomicUsize; N] = [Z; N];
    pub static MISMATCH: AtomicUsize = AtomicUsize::new(0);
    pub struct Tracker;
    unsafe impl GlobalAlloc for Tracker {
        unsafe fn alloc(&self, l: Layout) -> *mut u8 {
            let p = System.alloc(l);
            for i in 0..N {
                if PTR[i].compare_exchange(0, p as usize, SeqCst, SeqCst).is_ok() {
                    SIZE[i].store(l.size(), SeqCst);
                    ALIGN[i].store(l.align(), SeqCst);
                    break;
                }
            }
            p
        }
        unsafe fn dealloc(&self, p: *mut u8, l: Layout) {
            for i in 0..N {
                if PTR[i].load(SeqCst) == p as usize {
                    if SIZE[i].load(SeqCst) != l.size() || ALIGN[i].load(SeqCst) != l.align() {
                        MISMATCH.store(1, SeqCst);
                    }
                    PTR[i].store(0, SeqCst);
                    break;
                }
            }
            System.dealloc(p, l)
        }
    }
    /// (size, align) the live block at `p` was allocated with
    pub fn layout_of(p: usize) -> Option<(usize, usize)> {
        for i in 0..N {
            if PTR[i].load(SeqCst) == p {
                return Some((SIZE[i].load(SeqCst), ALIGN[i].load(SeqCst)));
            }
        }
        None
    }
    pub fn mismatch_seen() -> bool {
        MISMATCH.load(SeqCst) != 0
    }
}

/// Vacuity witness: must be reported SATISFIED by the model checker.
#[macro_export]
macro_rules! cover {
    ($c:expr, $m:literal) => {{
        #[cfg(kani)]
        kani::cover!($c, $m);
        #[cfg(not(kani))]
        if $c {
            $crate::nd::note_cover($m);
        }
    }};
}

/// Harness-level assertion.  The runner recognises harness assertions by their
/// *location* (this crate's `src/`), library panics by theirs (`/repo`, core).
#[macro_export]
macro_rules! vassert {
    ($c:expr, $m:literal) => {{
        let __ok: bool = $c;
        // witness twin: Kani emits a concrete playback for a satisfied cover even where it
        // emits none for the failed assertion; the runner pairs the two by source location
        #[cfg(kani)]
        kani::cover!(!__ok, $m);
        assert!(__ok, $m);
    }};
}

/// The call above was expected to end in a controlled panic.
#[macro_export]
macro_rules! noreturn {
    ($m:literal) => {{
        #[cfg(kani)]
        kani::cover!(true, $m);
        panic!($m)
    }};
}
