//! Shared helpers: aligned symbolic regions, little-endian reference decoders,
//! a null `fmt::Write`.

use crate::nd;

/// A memory object of exactly `N` bytes, 8-aligned: the model checker treats it
/// as one object, so any access outside `[0, N)` is a failed pointer check.
#[derive(Clone, Copy)]
#[repr(C, align(8))]
pub struct Aligned<const N: usize>(pub [u8; N]);

impl<const N: usize> Aligned<N> {
    #[cfg(kani)]
    pub fn any() -> Self {
        Aligned(kani::any())
    }
    #[cfg(not(kani))]
    pub fn any() -> Self {
        Aligned(nd::any::<[u8; N]>())
    }
    pub fn addr(&self) -> usize {
        self.0.as_ptr() as usize
    }
}

pub fn le16(b: &[u8], off: usize) -> u16 {
    u16::from_le_bytes([b[off], b[off + 1]])
}
pub fn le32(b: &[u8], off: usize) -> u32 {
    u32::from_le_bytes([b[off], b[off + 1], b[off + 2], b[off + 3]])
}
pub fn le64(b: &[u8], off: usize) -> u64 {
    (le32(b, off) as u64) | ((le32(b, off + 4) as u64) << 32)
}
pub fn put32(b: &mut [u8], off: usize, v: u32) {
    let x = v.to_le_bytes();
    b[off] = x[0];
    b[off + 1] = x[1];
    b[off + 2] = x[2];
    b[off + 3] = x[3];
}
pub fn put16(b: &mut [u8], off: usize, v: u16) {
    let x = v.to_le_bytes();
    b[off] = x[0];
    b[off + 1] = x[1];
}
pub const fn round8(x: usize) -> usize {
    (x + 7) & !7
}

/// `core::fmt::Write` sink that discards everything.
pub struct Null;
impl core::fmt::Write for Null {
    fn write_str(&mut self, _s: &str) -> core::fmt::Result {
        Ok(())
    }
}

/// `p..p+len` lies inside `base..base+size`.
pub fn inside(p: usize, len: usize, base: usize, size: usize) -> bool {
    p >= base && p - base <= size && len <= size - (p - base)
}
