#!/usr/bin/env python3
"""Regenerates /verif/MANIFEST.json from the table below (kept valid at all times)."""
import json, os, subprocess
V = os.path.dirname(os.path.dirname(os.path.abspath(__file__)))

# id -> (technique, level text, level note)   — only properties with a working check
CLAIMED = {
 "C02": ("bounded model checking (Kani/CBMC+CaDiCaL) of BootInformation::load on a fully symbolic 64-byte region against a decision-table oracle",
         "For every content of a 64-byte region with any declared size 0..=64 the solver shows load() returns exactly the specified outcome (Ok / ShorterThanHeader / MissingPadding / NoEndTag), never panics, and reports start/end/size exactly; null pointer separately.",
         "dev-profile semantics; region <= 64 bytes (thorough: 136 and 4096 bytes); memory behind the pointer is as large as declared"),
 "C06": ("symbolic execution of Builder::build's MIR (own MIR->z3 engine) with symbolic slot occupancy: solver decides that exactly the set slots' byte views, each once, plus one end tag reach new_boxed; composed with Kani lemmas for new_boxed (C16), as_bytes/constructor images (C07) and load/walk (C02, C03)",
         "For every slot occupancy with <= 2 tags present or <= 1 absent (Vec slots 0..2 elements; thorough: <= 3, dev+release MIR) the sequence handed to new_boxed contains each supplied tag's byte view exactly once, Vec kinds in call order, nothing from unset slots, and one end tag last; counterexample occupancies are replayed through the real builder natively.",
         "Kani cannot compile multiboot2::Builder (ICE on ElfSectionsTag's layout) so the byte-level round trip is compositional; summaries: Vec/Option/slice::Iter list semantics, as_bytes as uninterpreted view, new_boxed as observation point; setter bodies (one-line slot assignments) not encoded"),
 "C07": ("bounded model checking (Kani/CBMC+CaDiCaL): differential check of every constructor's byte image against an independent spec offset/width table with symbolic arguments",
         "All argument values of the 12 sized boot-information constructors, 10 sized header-tag constructors, both header constructors and the DST constructors (memory map <= 2 areas, SMBIOS/network/EFI map <= 9 bytes, EFI descriptors <= 1, framebuffer 3 types with <= 2 colours, information request <= 3, strings <= 5 bytes): type == ID == spec number, exact unpadded size, little-endian image, accessor read-back, byte view obtainable at every address satisfying the type's alignment.",
         "dev-profile semantics; content lengths bounded as stated; ElfSectionsTag::new excluded (Kani ICE on its layout)"),
 "C08": ("bounded model checking (Kani, dev semantics) to find inputs reaching each arithmetic overflow check + native release replay of those inputs; same harnesses decided with and without default features; MIR->z3 validity obligations for enum-typed loads",
         "Profile half: for 40 parse/decode harnesses every reachable overflow check is replayed in the release build (dev panics vs release returns = divergence; unreachable checks mean both profiles execute the same operations). Feature half: load / ref_from_slice / walk / accessor harnesses decided under default and no-default features against the same oracles. Enum-typed loads from tag memory: validity obligation decided by z3 on the release MIR.",
         "optimiser-level differences can only arise from UB: covered by the C01/C09 memory-safety checks and the enum-load obligations; rustc/LLVM preserving UB-free MIR is trusted; known finding K02"),
 "C09": ("bounded model checking (Kani/CBMC+CaDiCaL): header region = one exact-size symbolic memory object, CBMC pointer/bounds checks + extent assertions, unwinding assertions",
         "Fully symbolic 56-byte headers (valid magic/checksum, enumerated fields defined along the spec walk): load, tag walk, all ten typed getters with all accessors incl. the information-request list; reads outside the object or slices outside their tag fail; controlled panics allowed.",
         "dev-profile semantics; header <= 56 bytes; Debug formatters: thorough tier / compositional"),
 "C10": ("bounded model checking (Kani/CBMC+CaDiCaL): header load on a symbolic 64-byte region vs. decision table; checksum law over three full-width symbolic words",
         "load(): all magic/checksum/length<=64 words, both architectures, outcome equals the specified precedence table, no panic. calc_checksum: congruence and absence of panic for all 2^32 x 2 x 2^32 inputs.",
         "dev-profile semantics; architecture word in {0,4}; region <= 64 bytes (thorough: 136 and 4096 bytes)"),
 "C11": ("bounded model checking (Kani/CBMC+CaDiCaL): lock-step spec walk and differential field decode for the header crate",
         "Valid 56-byte headers: accessors return stored magic/arch/length/checksum, iterator == spec walk from offset 16 (address, type, flags, size, payload extent, exhaustion); every field of the 10 header-tag kinds == little-endian decode at the specified offset; first match / absence over all orders of three tags; information-request lists of 0..5; no panic allowed.",
         "dev-profile semantics; header <= 56 bytes"),
 "C12": ("symbolic execution of the header Builder::build MIR (own MIR->z3 engine) over all 2^10 slot occupancies x both architectures; Kani for new_boxed with the basic header (length/checksum patching) and the tag constructors",
         "All 1024 occupancies: exactly the set slots' byte views once each plus one EndHeaderTag view last reach new_boxed (solver-decided per path); new_boxed::<DynSizedStructure<Multiboot2BasicHeader>> sets length = byte length and a valid checksum (Kani, content <= 12 bytes); constructors emit spec images (C07); counterexamples replayed through the real builder + load.",
         "byte-level round trip is compositional (Kani on the whole builder needs 11-32 GB per subset); summaries as for C06"),
 "C13": ("symbolic execution of find_header's MIR and its magic closure (own MIR->z3 engine), buffer length < 2^32 and all bytes symbolic, Windows::position/next and slice get/index through their specifications; z3 decides the property's case analysis per path",
         "For every 8-aligned buffer: no panic path is feasible; the scan covers exactly the first min(len,8192) bytes; Ok(None) iff no occurrence; for the first occurrence i: Ok(Some(buffer[i..i+stored], i)) iff i%8==0 and the range is inside the buffer, an error otherwise; dev and release MIR; models replayed natively (len <= 20000).",
         "trusted: the summaries of core::slice::Windows / Iterator::position (first-match specification) and of slice::get/Index bounds; Kani measured infeasible (8192-iteration scan at ~1 iteration/s)"),
 "C14": ("bounded model checking (Kani/CBMC+CaDiCaL) of BytesRef::try_from / ref_from_slice for four header kinds on symbolic sub-slices vs. precedence oracle; full-width rounding lemma",
         "All slices buf[a..a+len], a in 0..8, len<=40, all contents and declared sizes: error precedence, address identity, payload extent and bytes, size_of_val == round8(declared) <= len; object-bounds checks of the model catch any view past the slice.",
         "dev-profile semantics; slice <= 40 bytes; enumerated header fields hold defined values"),
 "C01": ("bounded model checking (Kani/CBMC+CaDiCaL): region = one exact-size symbolic memory object, CBMC pointer/bounds checks + extent assertions, unwinding assertions for termination",
         "Fully symbolic 48..80-byte regions (all tag types/sizes/orders that fit) through load, the tag walk and each typed getter with all accessors; exact-size single-tag objects for RSDP, EFI map; every read outside the object or slice outside its tag is a failed check; controlled panics allowed.",
         "dev-profile semantics; regions <= 80 bytes (VBE 800 in thorough); ELF sections via hook/mirse; Debug formatters only in the thorough tier; string accessors bounded as in C17"),
 "C03": ("bounded model checking (Kani/CBMC+CaDiCaL): lock-step comparison of TagIter with a spec walk written in the harness over fully symbolic regions",
         "All tag sequences in 48-byte (thorough: 32/64) regions: address identity, stored type/size, payload extent, end at region end, exhaustion, clone/fresh-iterator agreement, module iterator = type-3 subsequence; non-tiling walks must panic (NORETURN + reachable panic).",
         "dev-profile semantics; region <= 64 bytes (<= 7 tags)"),
 "C04": ("bounded model checking (Kani/CBMC+CaDiCaL): differential check of every getter and field accessor against an independent spec offset/width table on symbolic tag bytes; first-match over symbolic tag orders",
         "One conformant tag per region with every field byte symbolic for 20 tag kinds (VBE field-by-field in the thorough tier): accessor == little-endian decode at the specified offset, RSDP checksum validity == byte sum, framebuffer colour info for the three types, unknown type byte -> error carrying it (all 256), EFI-map withholding, first match / absence over all orders of three tags; no panic allowed.",
         "dev-profile semantics (enum-typed framebuffer type byte: see C08); <= 3 tags per region; ELF getters in C19"),
 "C05": ("bounded model checking (Kani/CBMC+CaDiCaL): fat-pointer metadata and accessor extents of every DST kind vs. (size - fixed)/elem for symbolic sizes",
         "Declared size 8..72 for each variable-length kind of both crates (ELF: see C19): element count, start offset, size_of_val == round8(size); sizes below the fixed part or with a remainder must panic.",
         "dev-profile semantics; size <= 72; ElfSectionsTag not compilable by Kani (layout ICE) - handled in C19"),
 "C15": ("bounded model checking (Kani/CBMC+CaDiCaL) of DynSizedStructure::cast / get_tag for a family of user-defined sized and DST tag types and all built-in kinds with symbolic tag size",
         "22 user-defined types (sized +0..6 words; DST fixed 8/16/24 x elem 1,2,3,4,8,24; raw 4-aligned form fixed 8/12/20) and the built-in kinds, tag size 8..96: cast panics or returns same address with size_of_val == round8(size); fields alias the tag bytes.",
         "dev-profile semantics; 8-aligned DSTs with fixed part 12/20 cannot be compiled by Kani (ICE) and are not covered; known finding K01 (transient dangling reference inside cast)"),
 "C16": ("bounded model checking (Kani/CBMC+CaDiCaL) of new_boxed with symbolic content split at symbolic cut points, and of clone_dyn for every DST kind",
         "Content of 0..12 bytes in 0..3 slices: size field, gap-free concatenation, 8-aligned allocation of round8(total), Layout::for_value equals the allocation layout, drop under CBMC's free checks; clone_dyn of 10 DST kinds with every padding residue: same size, same bytes.",
         "dev-profile semantics; content <= 12 bytes; ElfSectionsTag excluded (Kani ICE on its layout); Kani's allocator model never fails"),
 "C17": ("bounded model checking (Kani/CBMC+CaDiCaL): string-tag parsing on symbolic tag bytes vs. a NUL/UTF-8 reference oracle (core's memchr and UTF-8 validation executed); constructor images for symbolic texts",
         "Parse: all byte contents of a text area <= 3 bytes (thorough 4/8) with symbolic padding/neighbour bytes, plus <= 24 bytes with from_utf8 stubbed (NUL/extent half); outcome Ok/MissingNul/Utf8 equals the reference, never panics, never looks past the size. Build: all texts <= 5 bytes: size, single terminator, stored bytes.",
         "dev-profile semantics; UTF-8 verdict of core trusted beyond 8 bytes; stub listed in evidence"),
 "C18": ("bounded model checking (Kani/CBMC+CaDiCaL) of the EFI memory-map iterator with symbolic descriptor size, version, map length and contents; exact-size object for bounds",
         "d in 0..=128, L in 0..=96 (thorough 200): accepted combinations yield exactly L/d descriptors at offset i*d with decoded fields and exact len()/size_hint(); all other combinations must panic; produced descriptors are aligned and inside the tag.",
         "dev-profile semantics; map <= 200 bytes"),
 "C19": ("Kani on the section iterator from an arbitrary state via the cfg(multiboot2_verif) hook (exact-size section area, &dyn dispatch, packed layouts) + MIR->z3 symbolic execution of cast::<ElfSectionsTag> and sections() for all stored counts/sizes/indices",
         "Iterator: from any entry index of a 3x40 / 2x64 (thorough 4x64) byte area the walk yields exactly the in-use entries in order with type/flags/address/size/alignment from the ELF32/ELF64 layout, other entry sizes panic, state stays inside the area. sections(): for all 2^32 counts, entry sizes, indices and tag sizes the iterator handed out has all entries (and, if any, the string-table entry) inside the tag, else panics; dev == release.",
         "Kani cannot compile ElfSectionsTag (layout ICE) hence the split; ElfSection::name() follows an address stored in the tag (documented external memory, excluded)"),
 "C20": ("bounded model checking (Kani/CBMC+CaDiCaL) with full-width symbolic u32 inputs (no loops)",
         "All 2^32 (pairs of) values: conversions round-trip, named variants exactly for the specified numbers, id wrapper commutes, all PartialEq directions equal numeric equality; all 256 framebuffer type bytes; magic constants.",
         "dev-profile semantics; ELF section-type classification via the cfg(multiboot2_verif) hook"),
}
MIRSE = {"C01", "C04", "C05", "C06", "C08", "C12", "C13", "C19"}     # properties with a mirse target
KANI_TOO = {"C01", "C04", "C05", "C06", "C08", "C12", "C13", "C19"}  # ... that also have Kani harnesses
NA_REASON = "check not built yet (work in progress; plan in DESIGN.md §4)"
NA = {}

def main():
    props = [json.loads(l) for l in open(os.path.join(V, "properties.jsonl"))]
    hooks = subprocess.run(["git", "-C", "/repo", "log", "--format=%h", "--grep=^verif hook"], stdout=subprocess.PIPE, text=True).stdout.split()
    m = {
     "version": 1,
     "setup_cmd": "bin/vcheck --setup",
     "hooks": {"guard": "multiboot2_verif",
               "enable": "RUSTFLAGS='--cfg multiboot2_verif' (exported by bin/vcheck for cargo kani, the native replay build, Miri and the MIR dumps)",
               "baseline_off_cmd": "cd /repo && cargo test --workspace --no-fail-fast --offline",
               "source_commits": hooks, "add_only": True},
     "engines": [
       {"name": "kani", "path": "harness", "serves_properties": [], "kind_free_text": "Kani 0.68 / CBMC 6.11 / CaDiCaL: bounded model checking of #[kani::proof] harnesses over the real crates (path dependencies on /repo, rebuilt on every run); counterexamples replayed natively (dev, release, Miri) through harness/src/bin/replay.rs"},
       {"name": "mirse", "path": "mirse", "serves_properties": [], "kind_free_text": "own symbolic executor over rustc's MIR dump of /repo (regenerated on every run, dev and release flag sets) with z3; cvc5 cross-check"},
     ],
     "checks": [], "not_applicable": [], "notes": "see DESIGN.md; known_findings.json lists fixed and open findings",
    }
    for p in props:
        i = p["id"]
        if i in CLAIMED:
            t, txt, note = CLAIMED[i]
            m["checks"].append({"property_id": i, "quick_cmd": f"bin/vcheck {i} --tier quick", "thorough_cmd": f"bin/vcheck {i} --tier thorough",
                                "evidence_file": f"evidence/{i}.json", "replay_cmd_template": "bin/vcheck --replay {path}",
                                "engine": ("kani+mirse" if i in MIRSE and i in KANI_TOO else ("mirse" if i in MIRSE and i not in KANI_TOO else "kani")),
                                "level_claimed": {"category": "model_checking", "text": txt, "design_ref": f"DESIGN.md §4 {i}"},
                                "level_note": note + "; trusted: rustc MIR construction, Kani MIR->goto, CBMC, CaDiCaL, z3", "technique": t})
            m["engines"][0]["serves_properties"].append(i)
            if i in MIRSE:
                m["engines"][1]["serves_properties"].append(i)
        else:
            m["not_applicable"].append({"property_id": i, "reason": NA.get(i, NA_REASON)})
    json.dump(m, open(os.path.join(V, "MANIFEST.json"), "w"), indent=1)

if __name__ == "__main__":
    main()
